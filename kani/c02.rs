// C02 (table half): the real `as_rust_type` over EVERY byte string of a given length (no ':'), against the
// pinned builtin table. Inflector's to_pascal_case is stubbed by a tagging function (the table, not
// Inflector, is the subject); RandomState::new is stubbed because Kani has no getrandom.
use crate::model::doc::RustDocument;
use crate::model::field::{as_rust_type, OtherRustType, RustFieldType};

include!("builtin_table.rs"); // generated from /verif/reference/builtins.json: fn expected(s:&[u8]) -> Option<RustFieldType>

pub fn fixed_random_state() -> std::hash::RandomState {
    unsafe { std::mem::transmute::<(u64, u64), std::hash::RandomState>((1u64, 2u64)) }
}
pub fn stub_pascal(s: &str) -> String {
    let mut r = String::from("P:");
    r.push_str(s);
    r
}

fn table_body<const L: usize>() {
    let doc = RustDocument::empty();
    let b: [u8; L] = kani::any();
    let mut i = 0;
    while i < L {
        kani::assume(b[i] >= 0x21 && b[i] < 0x7f && b[i] != b':');
        i += 1;
    }
    let s = unsafe { std::str::from_utf8_unchecked(&b) };
    let t = as_rust_type(s, &doc);
    let ok = match expected(&b) {
        Some(e) => {
            t == e
        }
        None => match &t {
            RustFieldType::Other(OtherRustType { name, module }) => {
                module.is_none() && name.len() == L + 2 && &name.as_bytes()[2..] == &b[..] && name.as_bytes()[0] == b'P'
            }
            _ => false,
        },
    };
    kani::cover!(expected(&b).is_some() || !HAS_BUILTIN_OF_LEN[L], "a builtin name of this length exists");
    kani::cover!(expected(&b).is_none(), "a non-builtin name of this length exists");
    std::mem::forget(t);
    std::mem::forget(doc);
    assert!(ok, "C02 builtin table: mapped names give their carrier, every other name a user type");
}

macro_rules! table_harness {
    ($($name:ident = $l:literal),*) => { $(
        #[kani::proof]
        #[kani::unwind(22)]
        #[kani::stub(std::hash::RandomState::new, fixed_random_state)]
        #[kani::stub(inflector::cases::pascalcase::to_pascal_case, stub_pascal)]
        fn $name() { table_body::<$l>() }
    )* };
}
table_harness!(c02_table_1 = 1, c02_table_2 = 2, c02_table_3 = 3, c02_table_4 = 4, c02_table_5 = 5, c02_table_6 = 6, c02_table_7 = 7,
    c02_table_8 = 8, c02_table_9 = 9, c02_table_11 = 11, c02_table_12 = 12, c02_table_13 = 13, c02_table_15 = 15, c02_table_16 = 16,
    c02_table_18 = 18);
