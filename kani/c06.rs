// C06 harnesses: the real `restrictions` module of helpers_content.rs (compiled by path as `crate::hc`)
// against a reference predicate written over i128 / char counts.
use crate::hc::restrictions::{CheckRestrictions, Restrictions};
use std::rc::Rc;

pub fn stub_format(_a: std::fmt::Arguments<'_>) -> String {
    String::new()
}

fn any_opt_i32() -> Option<i32> {
    if kani::any() { Some(kani::any()) } else { None }
}
fn any_opt_usize() -> Option<usize> {
    if kani::any() { Some(kani::any()) } else { None }
}

/// XSD semantics of the four numeric facets over the mathematical integer `v`.
fn num_spec(v: i128, mi: Option<i32>, ma: Option<i32>, me: Option<i32>, xe: Option<i32>) -> bool {
    mi.map_or(true, |m| v >= m as i128)
        && ma.map_or(true, |m| v <= m as i128)
        && me.map_or(true, |m| v > m as i128)
        && xe.map_or(true, |m| v < m as i128)
}

macro_rules! int_harness {
    ($name:ident, $none:ident, $t:ty) => {
        #[kani::proof]
        #[kani::unwind(4)]
        #[kani::stub(alloc::fmt::format, stub_format)]
        fn $name() {
            let v: $t = kani::any();
            let (mi, ma, me, xe) = (any_opt_i32(), any_opt_i32(), any_opt_i32(), any_opt_i32());
            let r = Rc::new(Restrictions {
                min_inclusive: mi,
                max_inclusive: ma,
                min_exclusive: me,
                max_exclusive: xe,
                ..Default::default()
            });
            std::mem::forget(r.clone());
            let res = v.check_restrictions(Some(r));
            let got = res.is_ok();
            std::mem::forget(res);
            let want = num_spec(v as i128, mi, ma, me, xe);
            kani::cover!(got, "accept reachable");
            kani::cover!(!got, "reject reachable");
            kani::cover!(mi.is_some() && ma.is_some() && me.is_some() && xe.is_some() && got, "all four facets, accepted");
            assert!(got == want, "C06 integer facet semantics");
        }

        #[kani::proof]
        #[kani::unwind(4)]
        #[kani::stub(alloc::fmt::format, stub_format)]
        fn $none() {
            let v: $t = kani::any();
            let res = v.check_restrictions(None);
            let got = res.is_ok();
            std::mem::forget(res);
            kani::cover!(got, "accept reachable");
            assert!(got, "C06 no restriction set accepts every value");
        }
    };
}

int_harness!(c06_int_i8, c06_none_i8, i8);
int_harness!(c06_int_u8, c06_none_u8, u8);
int_harness!(c06_int_i16, c06_none_i16, i16);
int_harness!(c06_int_u16, c06_none_u16, u16);
int_harness!(c06_int_i32, c06_none_i32, i32);
int_harness!(c06_int_u32, c06_none_u32, u32);
int_harness!(c06_int_i64, c06_none_i64, i64);
int_harness!(c06_int_u64, c06_none_u64, u64);

fn any_small_restrictions() -> Option<Rc<Restrictions>> {
    if kani::any() {
        let r = Rc::new(Restrictions {
            min_inclusive: any_opt_i32(),
            max_inclusive: any_opt_i32(),
            min_exclusive: any_opt_i32(),
            max_exclusive: any_opt_i32(),
            length: any_opt_usize(),
            min_length: any_opt_usize(),
            max_length: any_opt_usize(),
            enumeration: if kani::any() { Some(Vec::new()) } else { None },
        });
        std::mem::forget(r.clone());
        Some(r)
    } else {
        None
    }
}

#[kani::proof]
#[kani::unwind(4)]
#[kani::stub(alloc::fmt::format, stub_format)]
fn c06_float_bool() {
    let which: u8 = kani::any();
    let r = any_small_restrictions();
    let res = match which % 3 {
        0 => {
            let v: f32 = kani::any();
            kani::cover!(v.is_nan(), "f32 NaN");
            v.check_restrictions(r)
        }
        1 => {
            let v: f64 = kani::any();
            kani::cover!(v.is_infinite(), "f64 infinite");
            v.check_restrictions(r)
        }
        _ => {
            let v: bool = kani::any();
            v.check_restrictions(r)
        }
    };
    let got = res.is_ok();
    std::mem::forget(res);
    assert!(got, "C06 float / bool carriers are never rejected");
}

// ---------------------------------------------------------------- strings: length facets
/// builds a well-formed UTF-8 string of exactly L bytes over {ASCII printable, U+00E9, U+20AC};
/// returns (string, number of chars)
fn any_utf8<const L: usize>() -> (String, usize) {
    let b: [u8; L] = kani::any();
    let mut i = 0;
    let mut chars = 0usize;
    while i < L {
        if b[i] == 0xC3 {
            kani::assume(i + 1 < L && b[i + 1] == 0xA9);
            i += 2;
        } else if b[i] == 0xE2 {
            kani::assume(i + 2 < L && b[i + 1] == 0x82 && b[i + 2] == 0xAC);
            i += 3;
        } else {
            kani::assume(b[i] >= 0x20 && b[i] < 0x7f);
            i += 1;
        }
        chars += 1;
    }
    (unsafe { String::from_utf8_unchecked(b.to_vec()) }, chars)
}

fn string_len_body<const L: usize>() {
    let (s, chars) = any_utf8::<L>();
    let (minl, maxl, exl) = (any_opt_usize(), any_opt_usize(), any_opt_usize());
    let r = Rc::new(Restrictions { min_length: minl, max_length: maxl, length: exl, ..Default::default() });
    std::mem::forget(r.clone());
    let res = s.check_restrictions(Some(r));
    let got = res.is_ok();
    std::mem::forget(res);
    std::mem::forget(s);
    let want = minl.map_or(true, |m| chars >= m) && maxl.map_or(true, |m| chars <= m) && exl.map_or(true, |m| chars == m);
    kani::cover!(got, "accept reachable");
    kani::cover!(!got, "reject reachable");
    kani::cover!(chars < L || L < 2, "multi-byte character present");
    assert!(got == want, "C06 string length facets count characters");
}

macro_rules! string_len_harness {
    ($($name:ident = $l:literal),*) => { $(
        #[kani::proof]
        #[kani::unwind(9)]
        #[kani::stub(alloc::fmt::format, stub_format)]
        fn $name() { string_len_body::<$l>() }
    )* };
}
string_len_harness!(c06_strlen_0 = 0, c06_strlen_1 = 1, c06_strlen_2 = 2, c06_strlen_3 = 3, c06_strlen_4 = 4, c06_strlen_5 = 5, c06_strlen_6 = 6);

// ---------------------------------------------------------------- strings: numeric text
fn string_num_body<const L: usize>() {
    let b: [u8; L] = kani::any();
    let mut i = 0;
    while i < L {
        kani::assume((b[i] >= b'0' && b[i] <= b'9') || b[i] == b'-' || b[i] == b'+' || b[i] == b'a');
        i += 1;
    }
    let s = unsafe { String::from_utf8_unchecked(b.to_vec()) };
    let (mi, ma, me, xe) = (any_opt_i32(), any_opt_i32(), any_opt_i32(), any_opt_i32());
    let any_facet = mi.is_some() || ma.is_some() || me.is_some() || xe.is_some();
    let r = Rc::new(Restrictions { min_inclusive: mi, max_inclusive: ma, min_exclusive: me, max_exclusive: xe, ..Default::default() });
    std::mem::forget(r.clone());
    let res = s.check_restrictions(Some(r));
    let got = res.is_ok();
    std::mem::forget(res);
    std::mem::forget(s);
    // reference: lexical form [+-]?[0-9]+ and the denoted integer satisfies the facets
    let (neg, start) = if L > 0 && b[0] == b'-' { (true, 1) } else if L > 0 && b[0] == b'+' { (false, 1) } else { (false, 0) };
    let mut lexical = start < L;
    let mut v: i128 = 0;
    let mut j = start;
    while j < L {
        if b[j] < b'0' || b[j] > b'9' {
            lexical = false;
        } else {
            v = v * 10 + (b[j] - b'0') as i128;
        }
        j += 1;
    }
    if neg {
        v = -v;
    }
    let want = if any_facet { lexical && num_spec(v, mi, ma, me, xe) } else { true };
    kani::cover!((got && any_facet) || L == 0, "numeric text accepted under a facet");
    kani::cover!(!got, "reject reachable");
    assert!(got == want, "C06 numeric text against numeric facets");
}

macro_rules! string_num_harness {
    ($($name:ident = $l:literal),*) => { $(
        #[kani::proof]
        #[kani::unwind(14)]
        #[kani::stub(alloc::fmt::format, stub_format)]
        fn $name() { string_num_body::<$l>() }
    )* };
}
string_num_harness!(c06_strnum_0 = 0, c06_strnum_1 = 1, c06_strnum_2 = 2, c06_strnum_3 = 3, c06_strnum_4 = 4, c06_strnum_5 = 5,
    c06_strnum_6 = 6, c06_strnum_7 = 7, c06_strnum_8 = 8, c06_strnum_9 = 9, c06_strnum_10 = 10, c06_strnum_11 = 11);

// ---------------------------------------------------------------- strings: enumeration
fn small_string<const L: usize>() -> String {
    let b: [u8; L] = kani::any();
    let mut i = 0;
    while i < L {
        kani::assume(b[i] == b'a' || b[i] == b'b' || b[i] == b'A');
        i += 1;
    }
    unsafe { String::from_utf8_unchecked(b.to_vec()) }
}

fn string_enum_body<const LV: usize, const L1: usize, const L2: usize>() {
    let v = small_string::<LV>();
    let e1 = small_string::<L1>();
    let e2 = small_string::<L2>();
    let two: bool = kani::any();
    let m1 = LV == L1 && v.as_bytes() == e1.as_bytes();
    let m2 = LV == L2 && v.as_bytes() == e2.as_bytes();
    let member = m1 || (two && m2);
    let en = if two { vec![e1, e2] } else { std::mem::forget(e2); vec![e1] };
    let r = Rc::new(Restrictions { enumeration: Some(en), ..Default::default() });
    std::mem::forget(r.clone());
    let res = v.check_restrictions(Some(r));
    let got = res.is_ok();
    std::mem::forget(res);
    std::mem::forget(v);
    kani::cover!(got, "member accepted");
    kani::cover!(!got, "non-member rejected");
    assert!(got == member, "C06 enumeration membership");
}

macro_rules! string_enum_harness {
    ($($name:ident = ($a:literal, $b:literal, $c:literal)),*) => { $(
        #[kani::proof]
        #[kani::unwind(5)]
        #[kani::stub(alloc::fmt::format, stub_format)]
        fn $name() { string_enum_body::<$a, $b, $c>() }
    )* };
}
string_enum_harness!(c06_strenum_1_1_1 = (1, 1, 1), c06_strenum_2_2_2 = (2, 2, 2), c06_strenum_2_1_2 = (2, 1, 2), c06_strenum_1_0_1 = (1, 0, 1));

#[kani::proof]
#[kani::unwind(9)]
#[kani::stub(alloc::fmt::format, stub_format)]
fn c06_string_none() {
    let (s, _) = any_utf8::<3>();
    let res = s.check_restrictions(None);
    let got = res.is_ok();
    std::mem::forget(res);
    std::mem::forget(s);
    assert!(got, "C06 no restriction set accepts every string");
}

// ---------------------------------------------------------------- Option / Vec delegation
#[kani::proof]
#[kani::unwind(5)]
#[kani::stub(alloc::fmt::format, stub_format)]
fn c06_option_vec_i32() {
    let (mi, ma, me, xe) = (any_opt_i32(), any_opt_i32(), any_opt_i32(), any_opt_i32());
    let mk = || {
        let r = Rc::new(Restrictions { min_inclusive: mi, max_inclusive: ma, min_exclusive: me, max_exclusive: xe, ..Default::default() });
        std::mem::forget(r.clone());
        r
    };
    // Option<i32>
    let o: Option<i32> = if kani::any() { Some(kani::any()) } else { None };
    let res = o.check_restrictions(Some(mk()));
    let got = res.is_ok();
    std::mem::forget(res);
    let want = o.map_or(true, |v| num_spec(v as i128, mi, ma, me, xe));
    kani::cover!(o.is_none(), "absent optional");
    kani::cover!(o.is_some() && !got, "present optional rejected");
    assert!(got == want, "C06 Option delegation");
    // Vec<i32> with 0..=3 items
    let n: usize = kani::any();
    kani::assume(n <= 3);
    let items: [i32; 3] = kani::any();
    let mut v = Vec::new();
    let mut want_v = true;
    let mut i = 0;
    while i < n {
        v.push(items[i]);
        want_v = want_v && num_spec(items[i] as i128, mi, ma, me, xe);
        i += 1;
    }
    let res = v.check_restrictions(Some(mk()));
    let got_v = res.is_ok();
    std::mem::forget(res);
    std::mem::forget(v);
    kani::cover!(n == 3 && !got_v, "three items, one rejected");
    kani::cover!(n == 3 && got_v, "three items accepted");
    assert!(got_v == want_v, "C06 Vec delegation: ok iff every item ok");
}

#[kani::proof]
#[kani::unwind(6)]
#[kani::stub(alloc::fmt::format, stub_format)]
fn c06_option_string() {
    let (minl, maxl) = (any_opt_usize(), any_opt_usize());
    let r = Rc::new(Restrictions { min_length: minl, max_length: maxl, ..Default::default() });
    std::mem::forget(r.clone());
    let (s1, c1) = any_utf8::<2>();
    let present: bool = kani::any();
    let some: Option<String> = Some(s1);
    let none: Option<String> = None;
    // the two cases are separate calls (no conditional move of the String: that merges pointers and stalls the solver)
    let got = if present {
        let res = some.check_restrictions(Some(r));
        let g = res.is_ok();
        std::mem::forget(res);
        g
    } else {
        let res = none.check_restrictions(Some(r));
        let g = res.is_ok();
        std::mem::forget(res);
        g
    };
    std::mem::forget(some);
    let spec = minl.map_or(true, |m| c1 >= m) && maxl.map_or(true, |m| c1 <= m);
    kani::cover!(present && !got, "present optional rejected");
    kani::cover!(!present, "absent optional");
    assert!(got == (!present || spec), "C06 Option<String> delegation");
}

#[kani::proof]
#[kani::unwind(6)]
#[kani::stub(alloc::fmt::format, stub_format)]
fn c06_vec_string() {
    let exl = any_opt_usize();
    let r = Rc::new(Restrictions { length: exl, ..Default::default() });
    std::mem::forget(r.clone());
    let (s1, c1) = any_utf8::<2>();
    let (s2, c2) = any_utf8::<1>();
    let spec = |c: usize| exl.map_or(true, |m| c == m);
    let want = spec(c1) && spec(c2);
    let v = vec![s1, s2];
    let res = v.check_restrictions(Some(r));
    let got = res.is_ok();
    std::mem::forget(res);
    std::mem::forget(v);
    kani::cover!(!got, "two items, rejected");
    kani::cover!(got, "two items, accepted");
    assert!(got == want, "C06 Vec<String> delegation: ok iff every item ok");
}
