// C14 (keyword half): the real `rename_keywords` over EVERY identifier-shaped string of a given length.
use crate::model::field::rename_keywords;

include!("kw_table.rs"); // generated from /verif/reference/keywords.json: const KW: &[&[u8]], const NONRAW: &[&[u8]]

fn is_in(list: &[&[u8]], s: &[u8]) -> bool {
    let mut i = 0;
    let mut r = false;
    while i < list.len() {
        if list[i].len() == s.len() && list[i] == s {
            r = true;
        }
        i += 1;
    }
    r
}

fn kw_body<const L: usize>() {
    let b: [u8; L] = kani::any();
    let mut i = 0;
    while i < L {
        kani::assume((b[i] >= b'a' && b[i] <= b'z') || (b[i] >= b'0' && b[i] <= b'9') || b[i] == b'_' || b[i] == b'S');
        i += 1;
    }
    kani::assume(L == 0 || !(b[0] >= b'0' && b[0] <= b'9'));
    let s = unsafe { std::str::from_utf8_unchecked(&b) };
    // the result may be a &str or an owned / borrowed string type (the harness does not depend on which)
    let renamed = rename_keywords(s);
    let renamed_str: &str = renamed.as_ref();
    let out = renamed_str.as_bytes();
    let in_kw = is_in(KW, &b);
    let legal = if out.len() >= 2 && out[0] == b'r' && out[1] == b'#' {
        let rest = &out[2..];
        rest.len() == L && rest == &b[..] && !is_in(NONRAW, rest)
    } else if in_kw {
        // a keyword that is not raw-escaped must have been replaced by some non-keyword identifier
        !is_in(KW, out) && out.len() > 0 && !(out.len() == L && out == &b[..])
    } else {
        // not a keyword: the name is kept as it is
        out.len() == L && out == &b[..]
    };
    kani::cover!(in_kw || !HAS_KW_OF_LEN[L], "a keyword of this length exists");
    kani::cover!(!in_kw, "a non-keyword of this length exists");
    assert!(legal, "C14 field identifier is legal (raw-escaped keyword or unchanged name)");
}

macro_rules! kw_harness {
    ($($name:ident = $l:literal),*) => { $(
        #[kani::proof]
        #[kani::unwind(56)]
        fn $name() { kw_body::<$l>() }
    )* };
}
kw_harness!(c14_kw_1 = 1, c14_kw_2 = 2, c14_kw_3 = 3, c14_kw_4 = 4, c14_kw_5 = 5, c14_kw_6 = 6, c14_kw_7 = 7, c14_kw_8 = 8, c14_kw_9 = 9, c14_kw_10 = 10);
