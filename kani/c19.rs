// C19 harnesses: the real `multi_ref` module of helpers_content.rs. A probe type with *arbitrary* observable
// behaviour stands for every implementation of the yaserde / CheckRestrictions traits: each MultiRef<P>
// method must produce exactly the call, the arguments and the result of the same method on the bare P.
use crate::hc::error::{SoapError, SoapResult};
use crate::hc::multi_ref::MultiRef;
use crate::hc::restrictions::{CheckRestrictions, Restrictions};
use std::mem::MaybeUninit;
use std::rc::Rc;
use std::sync::Arc;
use xml::attribute::OwnedAttribute;
use xml::name::OwnedName;
use xml::namespace::Namespace;
use yaserde::{YaDeserialize, YaSerialize};

// ---- call log (single-threaded harnesses)
#[derive(Clone, Copy, PartialEq)]
enum Ev {
    None,
    Check,
    Ser,
    SerAttr,
    De,
    DefaultCall,
    CloneCall,
    DebugCall,
}
static mut LOG: [(Ev, u8, usize, usize); 4] = [(Ev::None, 0, 0, 0); 4];
static mut NLOG: usize = 0;
// scripted behaviour of the probe (set by the harness from kani::any())
static mut SCRIPT_OK: bool = true;
static mut SCRIPT_BYTE: u8 = 0;
static mut RET_ATTR_PTR: usize = 0;

fn log(e: Ev, tag: u8, a: usize, b: usize) {
    unsafe {
        if NLOG < 4 {
            LOG[NLOG] = (e, tag, a, b);
        }
        NLOG += 1;
    }
}
fn err_string() -> String {
    let mut s = String::new();
    s.push((unsafe { SCRIPT_BYTE } & 0x7f) as char);
    s
}

pub struct Probe {
    tag: u8,
}
impl Default for Probe {
    fn default() -> Self {
        log(Ev::DefaultCall, 0, 0, 0);
        Probe { tag: 0xD7 }
    }
}
impl Clone for Probe {
    fn clone(&self) -> Self {
        log(Ev::CloneCall, self.tag, 0, 0);
        Probe { tag: self.tag }
    }
}
impl std::fmt::Debug for Probe {
    fn fmt(&self, f: &mut std::fmt::Formatter<'_>) -> std::fmt::Result {
        log(Ev::DebugCall, self.tag, f as *const _ as usize, 0);
        if unsafe { SCRIPT_OK } { Ok(()) } else { Err(std::fmt::Error) }
    }
}
impl CheckRestrictions for Probe {
    fn check_restrictions(&self, r: Option<Rc<Restrictions>>) -> SoapResult<()> {
        log(Ev::Check, self.tag, r.as_ref().map_or(0, |x| Rc::as_ptr(x) as usize), 0);
        std::mem::forget(r);
        if unsafe { SCRIPT_OK } { Ok(()) } else { Err(SoapError::Restriction(err_string())) }
    }
}
impl YaSerialize for Probe {
    fn serialize<W: std::io::Write>(&self, writer: &mut yaserde::ser::Serializer<W>) -> Result<(), String> {
        // the state of the caller's serializer as the wrapped value sees it (content-only positions set skip_start_end)
        log(Ev::Ser, self.tag, writer as *mut _ as usize, writer.skip_start_end() as usize);
        if unsafe { SCRIPT_OK } { Ok(()) } else { Err(err_string()) }
    }
    fn serialize_attributes(
        &self,
        attributes: Vec<OwnedAttribute>,
        namespace: Namespace,
    ) -> Result<(Vec<OwnedAttribute>, Namespace), String> {
        log(Ev::SerAttr, self.tag, attributes.as_ptr() as usize, attributes.len() * 16 + namespace.0.len());
        if unsafe { SCRIPT_OK } {
            // hand back a vector of its own (one more attribute), so that a wrapper that returns the
            // *input* instead of the inner result is visible
            let mut out = attributes;
            out.push(attr());
            unsafe { RET_ATTR_PTR = out.as_ptr() as usize };
            // ... and a namespace scope with one more declaration (a value that declares its own prefix), so that a wrapper
            // that hands the caller's scope back instead of the value's is visible
            let mut namespace = namespace;
            namespace.put("p", "u");
            Ok((out, namespace))
        } else {
            std::mem::forget(attributes);
            std::mem::forget(namespace);
            Err(err_string())
        }
    }
}
impl YaDeserialize for Probe {
    fn deserialize<R: std::io::Read>(reader: &mut yaserde::de::Deserializer<R>) -> Result<Self, String> {
        log(Ev::De, 0, reader as *mut _ as usize, 0);
        if unsafe { SCRIPT_OK } { Ok(Probe { tag: unsafe { SCRIPT_BYTE } }) } else { Err(err_string()) }
    }
}

fn attr() -> OwnedAttribute {
    OwnedAttribute { name: OwnedName { local_name: String::new(), namespace: None, prefix: None }, value: String::new() }
}
fn script() -> (bool, u8) {
    let ok: bool = kani::any();
    let b: u8 = kani::any();
    unsafe {
        SCRIPT_OK = ok;
        SCRIPT_BYTE = b;
    }
    (ok, b & 0x7f)
}
fn one_event(e: Ev, tag: u8) -> (usize, usize) {
    unsafe {
        assert!(NLOG == 1, "C19 exactly one call reaches the wrapped value");
        assert!(LOG[0].0 == e && LOG[0].1 == tag, "C19 the call is the same method on the wrapped value");
        (LOG[0].2, LOG[0].3)
    }
}

#[kani::proof]
#[kani::unwind(4)]
fn c19_check_restrictions() {
    let (ok, b) = script();
    let tag: u8 = kani::any();
    let w = MultiRef::new(Probe { tag });
    let r = Rc::new(Restrictions::default());
    std::mem::forget(r.clone());
    let addr = Rc::as_ptr(&r) as usize;
    let pass: bool = kani::any();
    let res = w.check_restrictions(if pass { Some(r) } else { std::mem::forget(r); None });
    let (seen, _) = one_event(Ev::Check, tag);
    assert!(seen == if pass { addr } else { 0 }, "C19 the same restriction set (or none) is handed on");
    match &res {
        Ok(()) => assert!(ok, "C19 same restriction result"),
        Err(SoapError::Restriction(s)) => assert!(!ok && s.as_bytes().len() == 1 && s.as_bytes()[0] == b, "C19 same restriction error"),
        Err(_) => assert!(false, "C19 same restriction error kind"),
    }
    kani::cover!(res.is_ok(), "ok path");
    kani::cover!(res.is_err() && pass, "err path with a restriction set");
    std::mem::forget(res);
    std::mem::forget(w);
}

#[kani::proof]
#[kani::unwind(4)]
fn c19_check_restrictions_every_time() {
    // the result is the wrapped value's result on EVERY call (no memory of an earlier call), also through a clone
    unsafe {
        SCRIPT_OK = true;
        SCRIPT_BYTE = 0x41;
    }
    let tag: u8 = kani::any();
    let w = MultiRef::new(Probe { tag });
    let first = w.check_restrictions(None);
    assert!(first.is_ok(), "C19 same restriction result (first call)");
    let via_clone: bool = kani::any();
    let w2 = w.clone();
    unsafe { SCRIPT_OK = false };
    let r = Rc::new(Restrictions::default());
    std::mem::forget(r.clone());
    let second = if via_clone { w2.check_restrictions(Some(r)) } else { w.check_restrictions(Some(r)) };
    assert!(unsafe { NLOG } == 2, "C19 every call reaches the wrapped value");
    assert!(second.is_err(), "C19 same restriction result on a later call with other restrictions");
    std::mem::forget(first);
    std::mem::forget(second);
    std::mem::forget(w);
    std::mem::forget(w2);
}

#[kani::proof]
#[kani::unwind(4)]
fn c19_serialize() {
    let (ok, b) = script();
    let tag: u8 = kani::any();
    let w = MultiRef::new(Probe { tag });
    // a Serializer that is never dereferenced: the probe only looks at its address
    let mut mem = MaybeUninit::<yaserde::ser::Serializer<Vec<u8>>>::uninit();
    let ser: &mut yaserde::ser::Serializer<Vec<u8>> = unsafe { &mut *mem.as_mut_ptr() };
    let addr = ser as *mut _ as usize;
    // only this flag of the serializer is ever read: it is initialised here, with an arbitrary value
    let skip: bool = kani::any();
    ser.set_skip_start_end(skip);
    let res = w.serialize(ser);
    let (seen, seen_skip) = one_event(Ev::Ser, tag);
    assert!(seen == addr, "C19 serialize writes into the caller's serializer");
    assert!(seen_skip == skip as usize, "C19 the wrapped value sees the serializer in the state the caller left it in");
    assert!(ser.skip_start_end() == skip, "C19 the wrapper leaves the serializer state alone");
    match &res {
        Ok(()) => assert!(ok, "C19 same serialize result"),
        Err(s) => assert!(!ok && s.as_bytes().len() == 1 && s.as_bytes()[0] == b, "C19 same serialize error"),
    }
    kani::cover!(res.is_ok(), "ok path");
    kani::cover!(res.is_err(), "err path");
    std::mem::forget(res);
    std::mem::forget(w);
}

#[kani::proof]
#[kani::unwind(5)]
fn c19_serialize_attributes() {
    let (ok, b) = script();
    let tag: u8 = kani::any();
    let w = MultiRef::new(Probe { tag });
    let n: usize = kani::any();
    kani::assume(n <= 2);
    let mut attrs = Vec::with_capacity(4);
    let mut i = 0;
    while i < n {
        attrs.push(attr());
        i += 1;
    }
    let in_ptr = attrs.as_ptr() as usize;
    let ns = Namespace::empty();
    let res = w.serialize_attributes(attrs, ns);
    let (seen_ptr, seen_len) = one_event(Ev::SerAttr, tag);
    assert!(seen_ptr == in_ptr && seen_len == n * 16, "C19 the caller's attributes and namespace reach the wrapped value");
    match &res {
        Ok((out, ns_out)) => {
            assert!(ok, "C19 same serialize_attributes result");
            assert!(ns_out.0.len() == 1, "C19 the namespace declarations the wrapped value adds are returned");
            assert!(out.as_ptr() as usize == unsafe { RET_ATTR_PTR } && out.len() == n + 1, "C19 the wrapped value's attributes are returned unchanged");
        }
        Err(s) => assert!(!ok && s.as_bytes().len() == 1 && s.as_bytes()[0] == b, "C19 same serialize_attributes error"),
    }
    kani::cover!(res.is_ok() && n == 2, "ok path, two attributes");
    kani::cover!(res.is_err(), "err path");
    std::mem::forget(res);
    std::mem::forget(w);
}

#[kani::proof]
#[kani::unwind(4)]
fn c19_deserialize() {
    let (ok, b) = script();
    let raw: u8 = unsafe { SCRIPT_BYTE };
    let mut mem = MaybeUninit::<yaserde::de::Deserializer<&[u8]>>::uninit();
    let de: &mut yaserde::de::Deserializer<&[u8]> = unsafe { &mut *mem.as_mut_ptr() };
    let addr = de as *mut _ as usize;
    let res = <MultiRef<Probe> as YaDeserialize>::deserialize(de);
    let (seen, _) = one_event(Ev::De, 0);
    assert!(seen == addr, "C19 deserialize reads from the caller's deserializer");
    match &res {
        Ok(w) => assert!(ok && w.tag == raw, "C19 deserializes to the value the bare type yields"),
        Err(s) => assert!(!ok && s.as_bytes().len() == 1 && s.as_bytes()[0] == b, "C19 same deserialize error"),
    }
    kani::cover!(res.is_ok(), "ok path");
    kani::cover!(res.is_err(), "err path");
    std::mem::forget(res);
}

#[kani::proof]
#[kani::unwind(4)]
fn c19_default_clone_deref() {
    let _ = script();
    let d: MultiRef<Probe> = MultiRef::default();
    let _ = one_event(Ev::DefaultCall, 0);
    assert!(d.tag == 0xD7, "C19 default wraps the default value");
    unsafe { NLOG = 0 };
    let tag: u8 = kani::any();
    let w = MultiRef::new(Probe { tag });
    let w2 = w.clone();
    assert!(unsafe { NLOG } == 0, "C19 clone does not copy the value");
    assert!(Arc::ptr_eq(&*w, &*w2), "C19 clones share the value");
    assert!(Arc::strong_count(&*w) == 2, "C19 clones share the value (count)");
    assert!(w2.tag == tag && (**w).tag == tag, "C19 deref reaches the value");
    std::mem::forget(w);
    std::mem::forget(w2);
    std::mem::forget(d);
}

// A wrapper inside a wrapper (self-referential types nest them): still exactly one call reaches the value, with the caller's
// arguments and the value's result; a clone of a clone shares the one value.
#[kani::proof]
#[kani::unwind(4)]
fn c19_nested_wrappers() {
    let (ok, b) = script();
    let tag: u8 = kani::any();
    let w: MultiRef<MultiRef<Probe>> = MultiRef::new(MultiRef::new(Probe { tag }));
    let r = Rc::new(Restrictions::default());
    std::mem::forget(r.clone());
    let addr = Rc::as_ptr(&r) as usize;
    let res = w.check_restrictions(Some(r));
    let (seen, _) = one_event(Ev::Check, tag);
    assert!(seen == addr, "C19 nested: the same restriction set is handed on");
    match &res {
        Ok(()) => assert!(ok, "C19 nested: same restriction result"),
        Err(SoapError::Restriction(s)) => assert!(!ok && s.as_bytes().len() == 1 && s.as_bytes()[0] == b, "C19 nested: same restriction error"),
        Err(_) => assert!(false, "C19 nested: same restriction error kind"),
    }
    unsafe { NLOG = 0 };
    let w2 = w.clone();
    let w3 = w2.clone();
    assert!(unsafe { NLOG } == 0, "C19 nested: clone does not copy the value");
    assert!(Arc::ptr_eq(&*w, &*w3), "C19 nested: a clone of a clone shares the outer value");
    assert!(Arc::ptr_eq(&***w, &***w3), "C19 nested: ... and the inner one");
    assert!(Arc::strong_count(&*w) == 3 && Arc::strong_count(&***w) == 1, "C19 nested: share counts");
    assert!((***w3).tag == tag, "C19 nested: deref reaches the value");
    kani::cover!(res.is_ok(), "ok path");
    kani::cover!(res.is_err(), "err path");
    std::mem::forget(res);
    std::mem::forget(w);
    std::mem::forget(w2);
    std::mem::forget(w3);
}
