// C07(a): Kani harnesses over the code zeep GENERATES for smi/corpus/facets2.xsd (module `generated`, produced by the native binary
// from /repo's working tree on every run). One symbolic leaf per harness, everything else valid: check_restrictions is a
// short-circuit conjunction over members, so the conjunction over positions is the claim.
use crate::generated::mod_fac::{Code, Flag, Holder, Outer, Quantity, ShortCode};
use crate::generated::restrictions::CheckRestrictions;

pub fn stub_format(_a: std::fmt::Arguments<'_>) -> String {
    String::new()
}

fn s(t: &str) -> String {
    t.to_string()
}
fn holder(code: String, codes: Vec<Code>, maybe: Option<Flag>, qty: String, tag: String) -> Holder {
    Holder { code: Code { value: code }, codes, maybe, qty: Quantity { value: qty }, short: None, region: None, tag: Code { value: tag } }
}
fn valid_holder() -> Holder {
    holder(s("ab"), Vec::new(), None, s("5"), s("xy"))
}
fn ascii<const L: usize>() -> String {
    let b: [u8; L] = kani::any();
    let mut i = 0;
    while i < L {
        kani::assume(b[i] >= 0x20 && b[i] < 0x7f);
        i += 1;
    }
    unsafe { String::from_utf8_unchecked(b.to_vec()) }
}
fn digits<const L: usize>() -> (String, i64, bool) {
    let b: [u8; L] = kani::any();
    let mut i = 0;
    let mut v: i64 = 0;
    let mut ok = L > 0;
    while i < L {
        kani::assume((b[i] >= b'0' && b[i] <= b'9') || b[i] == b'x');
        if b[i] == b'x' { ok = false; } else { v = v * 10 + (b[i] - b'0') as i64; }
        i += 1;
    }
    (unsafe { String::from_utf8_unchecked(b.to_vec()) }, v, ok)
}
fn verdict(o: Outer) -> bool {
    let r = o.check_restrictions(None);
    let e = r.is_err();
    std::mem::forget(r);
    std::mem::forget(o);
    e
}

macro_rules! code_at {
    ($name:ident, $l:literal, $build:expr) => {
        #[kani::proof]
        #[kani::unwind(8)]
        #[kani::stub(alloc::fmt::format, stub_format)]
        fn $name() {
            let v = ascii::<$l>();
            let build: fn(String) -> Outer = $build;
            let err = verdict(build(v));
            let want_err = !($l >= 2 && $l <= 3);
            assert!(err == want_err, "C07 a Code value (minLength 2, maxLength 3) is rejected exactly when its length is outside 2..3");
        }
    };
}
code_at!(c07_code_depth1_len1, 1, |v| Outer { holder: holder(v, Vec::new(), None, s("5"), s("xy")), more: Vec::new(), plain: s("p") });
code_at!(c07_code_depth1_len3, 3, |v| Outer { holder: holder(v, Vec::new(), None, s("5"), s("xy")), more: Vec::new(), plain: s("p") });
code_at!(c07_code_depth1_len4, 4, |v| Outer { holder: holder(v, Vec::new(), None, s("5"), s("xy")), more: Vec::new(), plain: s("p") });
code_at!(c07_attr_tag_len1, 1, |v| Outer { holder: holder(s("ab"), Vec::new(), None, s("5"), v), more: Vec::new(), plain: s("p") });
code_at!(c07_attr_tag_len2, 2, |v| Outer { holder: holder(s("ab"), Vec::new(), None, s("5"), v), more: Vec::new(), plain: s("p") });
code_at!(c07_vec_item_len4, 4, |v| Outer { holder: holder(s("ab"), vec![Code { value: s("ok") }, Code { value: v }], None, s("5"), s("xy")), more: Vec::new(), plain: s("p") });
// depth 2 through the repeated complex member (more: Vec<Holder>) does not finish under CBMC within 1500 s (moving a Holder with five
// heap strings into a Vec); that position is decided by the SMI part of C07 (quick tier) instead.

#[kani::proof]
#[kani::unwind(8)]
#[kani::stub(alloc::fmt::format, stub_format)]
fn c07_optional_flag_present_len2() {
    let v = ascii::<2>();
    let member = v.as_bytes() == b"on";
    let o = Outer { holder: holder(s("ab"), Vec::new(), Some(Flag { value: v }), s("5"), s("xy")), more: Vec::new(), plain: s("p") };
    let err = verdict(o);
    kani::cover!(!err, "member accepted");
    kani::cover!(err, "non-member rejected");
    assert!(err == !member, "C07 an optional enumerated member that is present is rejected exactly when it is not in the enumeration");
}

#[kani::proof]
#[kani::unwind(8)]
#[kani::stub(alloc::fmt::format, stub_format)]
fn c07_optional_members_absent() {
    let o = Outer { holder: valid_holder(), more: Vec::new(), plain: s("p") };
    assert!(!verdict(o), "C07 absent optional members never make the check fail");
}

// a simple type derived from a restricted simple type: ShortCode = Code (minLength 2, maxLength 3) narrowed to maxLength 2
macro_rules! short_at {
    ($name:ident, $l:literal) => {
        #[kani::proof]
        #[kani::unwind(8)]
        #[kani::stub(alloc::fmt::format, stub_format)]
        fn $name() {
            let v = ascii::<$l>();
            let mut h = valid_holder();
            h.short = Some(ShortCode { value: Code { value: v } });
            let err = verdict(Outer { holder: h, more: Vec::new(), plain: s("p") });
            assert!(err == ($l != 2), "C07 a ShortCode value is rejected exactly when its length is not 2 (inherited minLength 2, own maxLength 2)");
        }
    };
}
short_at!(c07_derived_short_len1, 1);
short_at!(c07_derived_short_len2, 2);
short_at!(c07_derived_short_len3, 3);

#[kani::proof]
#[kani::unwind(8)]
#[kani::stub(alloc::fmt::format, stub_format)]
fn c07_quantity_len2() {
    let (v, n, lexical) = digits::<2>();
    let o = Outer { holder: holder(s("ab"), Vec::new(), None, v, s("xy")), more: Vec::new(), plain: s("p") };
    let err = verdict(o);
    let ok = lexical && n >= 1 && n < 100;
    kani::cover!(!err, "accepted");
    kani::cover!(err, "rejected");
    assert!(err == !ok, "C07 a Quantity (minInclusive 1, maxExclusive 100) is rejected exactly when it is not a number in 1..99");
}

#[kani::proof]
#[kani::unwind(8)]
#[kani::stub(alloc::fmt::format, stub_format)]
fn c07_plain_string_unrestricted() {
    let v = ascii::<3>();
    let o = Outer { holder: valid_holder(), more: Vec::new(), plain: v };
    assert!(!verdict(o), "C07 an unrestricted member never makes the check fail");
}
