"""Shared plumbing for /verif/check: paths, evidence, known findings, process helpers, locks."""
import fcntl, hashlib, json, os, shutil, subprocess, sys, time

VERIF = os.path.dirname(os.path.dirname(os.path.abspath(__file__)))
REPO = os.environ.get('ZEEP_REPO', '/repo')
BUILD = os.path.join(VERIF, 'build')
EVID = os.path.join(VERIF, 'evidence')
REPLAYS = os.path.join(VERIF, 'replays')
KNOWN = os.path.join(VERIF, 'known_findings.json')

ENV = dict(os.environ, CARGO_NET_OFFLINE='true', CARGO_TERM_COLOR='never')


def seed():
    try:
        return int(os.environ.get('VERIF_SEED', '0'))
    except ValueError:
        return 0


def tier_from_env(default='quick'):
    t = os.environ.get('VERIF_TIER', default)
    return t if t in ('quick', 'thorough') else default


def ensure_dirs():
    for d in (BUILD, EVID, REPLAYS):
        os.makedirs(d, exist_ok=True)


class Lock:
    """inter-process lock on a file in build/ (serialises use of shared cargo target dirs)"""

    def __init__(self, name):
        ensure_dirs()
        self.path = os.path.join(BUILD, name + '.lock')

    def __enter__(self):
        self.f = open(self.path, 'w')
        fcntl.flock(self.f, fcntl.LOCK_EX)
        return self

    def __exit__(self, *a):
        fcntl.flock(self.f, fcntl.LOCK_UN)
        self.f.close()


def run(cmd, cwd=None, timeout=None, env=None, mem_kb=None, stdin=None):
    """run a command; returns (rc, stdout+stderr text, wall seconds). rc=-9 on timeout."""
    t0 = time.time()
    pre = None
    if mem_kb:
        import resource

        def pre():
            resource.setrlimit(resource.RLIMIT_AS, (mem_kb * 1024, mem_kb * 1024))
    try:
        p = subprocess.run(cmd, cwd=cwd, env=env or ENV, stdout=subprocess.PIPE, stderr=subprocess.STDOUT,
                           timeout=timeout, preexec_fn=pre, input=stdin, text=True, errors='replace',
                           start_new_session=True)
        return p.returncode, p.stdout, time.time() - t0
    except subprocess.TimeoutExpired as e:
        out = e.stdout or ''
        if isinstance(out, bytes):
            out = out.decode(errors='replace')
        return -9, out + '\n[TIMEOUT after %ss]' % timeout, time.time() - t0


def src_files(sub=('zeep-lib/src', 'zeep/src')):
    out = []
    for s in sub:
        for root, _, files in os.walk(os.path.join(REPO, s)):
            for f in sorted(files):
                if f.endswith('.rs'):
                    out.append(os.path.join(root, f))
    for f in ('Cargo.toml', 'Cargo.lock', 'zeep-lib/Cargo.toml', 'zeep/Cargo.toml'):
        p = os.path.join(REPO, f)
        if os.path.exists(p):
            out.append(p)
    return sorted(out)


def src_hash():
    h = hashlib.sha256()
    for f in src_files():
        h.update(f.encode())
        h.update(open(f, 'rb').read())
    return h.hexdigest()[:16]


# ------------------------------------------------------------------ known findings

def load_known():
    """known_findings.json: {"findings":[{"property","key","status":"known"|"fixed","what",...}]}"""
    try:
        d = json.load(open(KNOWN))
    except FileNotFoundError:
        return []
    return d.get('findings', [])


class Reporter:
    """Collects violations of one property. Each violation has a stable *key* (assertion id + witness
    class). Keys listed as status=known in known_findings.json are printed as KNOWN-FINDING and do not
    fail the check; everything else is a VIOLATION. 'fixed' entries suppress nothing."""

    def __init__(self, prop):
        self.prop = prop
        self.known = {f['key']: f for f in load_known() if f.get('property') == prop and f.get('status') == 'known'}
        self.viol = []      # (key, what, replay_path)
        self.kf = []        # (key, what)
        self.inconclusive = []  # messages
        self.seen = set()

    def violation(self, key, what, replay_path):
        if key in self.seen:
            return
        self.seen.add(key)
        if key in self.known:
            self.kf.append((key, what))
            print('KNOWN-FINDING: property=%s %s [%s]' % (self.prop, self.known[key].get('what', what), key), flush=True)
        else:
            self.viol.append((key, what, replay_path))
            print('VIOLATION property=%s replay=%s' % (self.prop, replay_path), flush=True)
            print('  key=%s :: %s' % (key, what), flush=True)

    def inconc(self, msg):
        self.inconclusive.append(msg)
        print('INCONCLUSIVE property=%s %s' % (self.prop, msg), flush=True)

    def unmatched_known(self):
        """known entries that no longer reproduce (informational)"""
        hit = {k for k, _ in self.kf}
        return [k for k in self.known if k not in hit]

    def exit_code(self):
        if self.viol:
            return 1
        if self.inconclusive:
            return 2
        return 0


def write_evidence(prop, tier, level, coverage, assumptions, wall_s, violations, extra=None):
    ensure_dirs()
    d = {
        'property_id': prop,
        'tier': tier,
        'seed': seed(),
        'level': level,
        'coverage': coverage,
        'assumptions': assumptions,
        'wall_s': round(wall_s, 2),
        'violations': violations,
    }
    if extra:
        d.update(extra)
    p = os.path.join(EVID, prop + '.json')
    tmp = p + '.tmp'
    with open(tmp, 'w') as f:
        json.dump(d, f, indent=1, sort_keys=True, default=str)
    os.replace(tmp, p)
    return p


def save_replay(prop, name, files):
    """write a replay bundle: files = {relative name: text}; returns dir path"""
    d = os.path.join(REPLAYS, prop, name)
    os.makedirs(d, exist_ok=True)
    for k, v in files.items():
        p = os.path.join(d, k)
        os.makedirs(os.path.dirname(p), exist_ok=True)
        with open(p, 'w') as f:
            f.write(v)
    return d


def rmtree(p):
    shutil.rmtree(p, ignore_errors=True)


def log(*a):
    print(*a, file=sys.stderr, flush=True)
