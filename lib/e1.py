"""E1: Kani/CBMC over the real zeep-lib sources compiled by path (mirror crate, no source hooks)."""
import json, os, re, shutil, time
from common import *

CRATE = os.path.join(BUILD, 'kani_crate')
TARGET = os.path.join(BUILD, 'kani_target')


def gen_crate(harness_mods, extra_lib='', crate=CRATE):
    """(re)generate the mirror crate from /repo's working tree. harness_mods: names of /verif/kani/<m>.rs"""
    os.makedirs(os.path.join(crate, 'src'), exist_ok=True)
    toml = open(os.path.join(REPO, 'zeep-lib/Cargo.toml')).read()
    deps = re.search(r'\[dependencies\](.*?)(\n\[|\Z)', toml, re.S).group(1)
    edition = re.search(r'edition\s*=\s*"(\d+)"', toml).group(1)
    version = re.search(r'version\s*=\s*"([^"]+)"', toml).group(1)
    cargo = '[package]\nname = "zeep-lib"\nversion = "%s"\nedition = "%s"\n\n[workspace]\n\n[dependencies]%s\n' % (version, edition, deps)
    cargo += '\n[lints.rust]\nunexpected_cfgs = { level = "allow" }\n'
    _write_if_changed(os.path.join(crate, 'Cargo.toml'), cargo)
    shutil.copyfile(os.path.join(REPO, 'Cargo.lock'), os.path.join(crate, 'Cargo.lock'))
    lib = open(os.path.join(REPO, 'zeep-lib/src/lib.rs')).read()
    out = ['#![allow(unused, clippy::all)]']
    for line in lib.split('\n'):
        m = re.match(r'\s*(pub(?:\([a-z]+\))?\s+)?mod\s+(\w+)\s*;', line)
        if m:
            name = m.group(2)
            cand = [os.path.join(REPO, 'zeep-lib/src', name + '.rs'), os.path.join(REPO, 'zeep-lib/src', name, 'mod.rs')]
            path = next((c for c in cand if os.path.exists(c)), cand[0])
            out.append('#[path = "%s"]\n%smod %s;' % (path, m.group(1) or '', name))
        elif line.startswith('#![') or line.strip().startswith('//') or not line.strip():
            continue
        else:
            out.append(line)
    out.append('#[path = "%s"]\nmod hc;' % os.path.join(REPO, 'zeep-lib/src/model/helpers_content.rs'))
    for m in harness_mods:
        shutil.copyfile(os.path.join(VERIF, 'kani', m + '.rs'), os.path.join(crate, 'src', m + '.rs'))
        out.append('#[cfg(kani)]\nmod %s;' % m)
    out.append(extra_lib)
    _write_if_changed(os.path.join(crate, 'src/lib.rs'), '\n'.join(out) + '\n')
    return crate


def _write_if_changed(p, text):
    try:
        if open(p).read() == text:
            return
    except FileNotFoundError:
        pass
    open(p, 'w').write(text)


def list_harnesses(mod):
    """names of #[kani::proof] functions in /verif/kani/<mod>.rs, macro-generated ones included"""
    src = open(os.path.join(VERIF, 'kani', mod + '.rs')).read()
    names = re.findall(r'#\[kani::proof\](?:\s*#\[[^\]]*\])*\s*fn (\w+)\s*\(', src)
    names = [n for n in names if not n.startswith('$')]
    # macro invocations: name = ... inside *_harness!( ... ) and int_harness!(a, b, t)
    for m in re.finditer(r'(\w+_harness)!\((.*?)\);', src, re.S):
        body = m.group(2)
        if m.group(1) == 'int_harness':
            a, b, _ = [x.strip() for x in body.split(',')]
            names += [a, b]
        else:
            names += re.findall(r'(\w+)\s*=', body)
    return names



def run_harnesses(mod, harnesses, jobs=8, timeout=900, per_harness_timeout=600, extra=(), crate=CRATE, target=TARGET,
                  mem_kb=14_000_000):
    """one cargo-kani invocation, harnesses run jobs-wide. returns ({harness: result dict}, raw output, rc, wall)"""
    cmd = ['cargo', 'kani', '-Z', 'stubbing', '-Z', 'unstable-options', '--harness-timeout', '%ds' % per_harness_timeout,
           '--target-dir', target, '-j', str(jobs), '--output-format', 'terse', '--exact']
    for h in harnesses:
        cmd += ['--harness', '%s::%s' % (mod, h)]
    cmd += list(extra)
    rc, out, wall = run(cmd, cwd=crate, timeout=timeout, mem_kb=mem_kb)
    return parse_output(out, harnesses), out, rc, wall


def parse_output(out, harnesses):
    """-j output: 'Thread N: Checking harness X...' announces, a bare 'Thread N: ' line opens that thread's result block"""
    cur = {}          # thread -> harness
    blocks = {}       # harness -> list of lines
    active = None
    for line in out.split('\n'):
        m = re.match(r'Thread (\d+): (.*)$', line)
        if m:
            t, rest = m.group(1), m.group(2)
            mm = re.match(r'Checking harness ([\w:]+)\.\.\.', rest)
            if mm:
                cur[t] = mm.group(1).split('::')[-1]
                blocks.setdefault(cur[t], [])
                active = None
            elif rest.strip() == '':
                active = cur.get(t)
            else:
                if t in cur:
                    blocks[cur[t]].append(rest)
                active = None
            continue
        mm = re.match(r'Checking harness ([\w:]+)\.\.\.', line)   # sequential mode
        if mm:
            active = mm.group(1).split('::')[-1]
            blocks.setdefault(active, [])
            continue
        if active is not None:
            blocks[active].append(line)
    res = {}
    for name, lines in blocks.items():
        b = '\n'.join(lines)
        st = 'UNKNOWN'
        m = re.search(r'VERIFICATION:- (\w+)', b)
        if m:
            st = m.group(1)
        if re.search(r'timed out|Timeout', b) and st == 'UNKNOWN':
            st = 'TIMEOUT'
        tm = re.search(r'Verification Time: ([\d.]+)s', b)
        covers = re.search(r'(\d+) of (\d+) cover properties satisfied', b)
        checks = re.search(r'\*\* (\d+) of (\d+) failed', b)
        failed = re.findall(r'Failed Checks: (.*)', b)
        unwind = [f for f in failed if 'unwinding assertion' in f]
        res[name] = dict(status=st, time=float(tm.group(1)) if tm else None,
                         covers=(int(covers.group(1)), int(covers.group(2))) if covers else None,
                         checks=int(checks.group(2)) if checks else 0,
                         failed=failed, unwind_fail=bool(unwind), raw=b[-2500:])
    for h in harnesses:
        res.setdefault(h, dict(status='MISSING', time=None, covers=None, checks=0, failed=[], unwind_fail=False, raw=''))
    return res
