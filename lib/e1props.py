"""E1 property drivers: C06, C19, C14 (keyword table), C02 (builtin table) on Kani/CBMC."""
import json, os, re, time
from common import *
import e1

# per harness family: what is symbolic / bound (goes into evidence samples)
FAMILIES = {
    'c06_int': 'value = any value of the carrier (full width); minInclusive/maxInclusive/minExclusive/maxExclusive each absent or any i32; oracle over i128',
    'c06_none': 'value = any value of the carrier (full width); no restriction set; must be accepted',
    'c06_float_bool': 'any f32 / f64 (NaN, infinities included) / bool with an arbitrary restriction set (enumeration None or empty); must be accepted',
    'c06_strlen': 'String = any well-formed UTF-8 of exactly L bytes over {ASCII printable, U+00E9, U+20AC}; length/minLength/maxLength each absent or any usize; oracle counts characters',
    'c06_strnum': 'String = any L bytes over {0-9,+,-,a}; the four numeric facets each absent or any i32; oracle: lexical [+-]?[0-9]+ and the denoted integer (i128) satisfies the facets',
    'c06_strenum': 'value and 1..2 enumeration members = any strings of fixed small lengths over {a,b,A}; ok iff member',
    'c06_string_none': 'any 3-byte UTF-8 string, no restriction set',
    'c06_option_vec_i32': 'Option<i32> (absent / any value) and Vec<i32> with 0..3 arbitrary items under arbitrary numeric facets: ok iff every present item ok',
    'c06_option_string': 'Option<String> absent / any 2-byte UTF-8 string under arbitrary minLength/maxLength',
    'c06_vec_string': 'Vec<String> with 1..2 items (2- and 1-byte UTF-8) under an arbitrary length facet',
    'c19_check_restrictions': 'probe tag, probe verdict, error byte, restriction set passed or None: all arbitrary',
    'c19_check_restrictions_every_time': 'two calls on one wrapper (the second also through a clone): passing first, failing then; arbitrary tag',
    'c19_serialize': 'probe tag / result / error byte arbitrary; Serializer uninitialised except its skip_start_end flag, which is arbitrary and must reach the value and survive the call',
    'c19_serialize_attributes': '0..2 attributes, probe result arbitrary; vector identity in and out',
    'c19_deserialize': 'probe result / tag / error byte arbitrary; Deserializer never dereferenced',
    'c19_default_clone_deref': 'arbitrary tag; Default, Clone (Arc identity, no value copy), Deref',
    'c19_nested_wrappers': 'MultiRef<MultiRef<Probe>>: arbitrary tag / verdict / error byte through two layers; clone of a clone shares both layers',
    'c14_kw': 'identifier = EVERY string of exactly L bytes over [a-z0-9_S] not starting with a digit; oracle: edition-2024 strict+reserved keyword list',
    'c02_table': 'type name = EVERY byte string of exactly L printable ASCII bytes without ":"; oracle: pinned builtin table; to_pascal_case stubbed by a tagging function',
}


def family(h):
    for f in sorted(FAMILIES, key=len, reverse=True):
        if h.startswith(f):
            return f
    return h


def gen_tables(crate):
    kw = json.load(open(os.path.join(VERIF, 'reference/keywords.json')))
    allkw = kw['strict'] + kw['reserved']
    s = 'const KW: &[&[u8]] = &[%s];\nconst NONRAW: &[&[u8]] = &[%s];\n' % (
        ', '.join('b"%s"' % k for k in allkw), ', '.join('b"%s"' % k for k in kw['non_raw']))
    lens = sorted({len(k) for k in allkw})
    s += 'const HAS_KW_OF_LEN: [bool; 16] = [%s];\n' % ', '.join('true' if i in lens else 'false' for i in range(16))
    open(os.path.join(crate, 'src/kw_table.rs'), 'w').write(s)
    tb = json.load(open(os.path.join(VERIF, 'reference/builtins.json')))['table']
    var = {'i8': 'I8', 'i16': 'I16', 'i32': 'I32', 'i64': 'I64', 'u8': 'U8', 'u16': 'U16', 'u32': 'U32', 'u64': 'U64',
           'f32': 'F32', 'f64': 'F64', 'bool': 'Bool', 'String': 'String'}
    lines = ['fn expected(s: &[u8]) -> Option<RustFieldType> {']
    for k, v in tb.items():
        lines.append('    if s.len() == %d && s == b"%s" { return Some(RustFieldType::%s); }' % (len(k), k, var[v]))
    lines.append('    None\n}\n')
    blens = sorted({len(k) for k in tb})
    lines.append('const HAS_BUILTIN_OF_LEN: [bool; 24] = [%s];\n' % ', '.join('true' if i in blens else 'false' for i in range(24)))
    open(os.path.join(crate, 'src/builtin_table.rs'), 'w').write('\n'.join(lines))


def replay(mod, harness, out_dir):
    """concrete playback of a FAILED harness against the natively compiled real code.
    returns (reproduced: bool|None, text)"""
    crate = e1.CRATE
    cmd = ['cargo', 'kani', '-Z', 'stubbing', '-Z', 'concrete-playback', '--concrete-playback=print',
           '--target-dir', e1.TARGET, '--exact', '--harness', '%s::%s' % (mod, harness)]
    rc, out, _ = run(cmd, cwd=crate, timeout=900, mem_kb=14_000_000)
    tests = re.findall(r'```\n(/// Test generated for harness.*?)```', out, re.S)
    tests = [t for t in tests if 'Check for `assertion`' in t or 'assertion' in t.split('#[test]')[0]] or tests
    if not tests:
        return None, 'no concrete playback test produced\n' + out[-2000:]
    # keep the tests for assertion failures only (cover witnesses are not counterexamples)
    asserts = [t for t in tests if re.search(r'Check for `(assertion|[a-z_]*overflow|unwrap|index|division)', t)] or tests
    src_path = os.path.join(crate, 'src', mod + '.rs')
    orig = open(src_path).read()
    names = []
    body = []
    for t in asserts[:3]:
        n = re.search(r'fn (kani_concrete_playback_\w+)', t).group(1)
        if n in names:
            continue
        names.append(n)
        body.append(t)
    open(src_path, 'w').write(orig + '\n' + '\n'.join(body))
    text = []
    reproduced = False
    try:
        for n in names:
            for prof in ([], ['--release']):
                rc2, out2, _ = run(['cargo', 'kani', 'playback', '-Z', 'concrete-playback'] + prof + ['--', n], cwd=crate, timeout=1200)
                failed = bool(re.search(r'test result: FAILED', out2))
                text.append('== %s %s: %s\n%s' % (n, ' '.join(prof) or 'dev', 'REPRODUCED (native panic)' if failed else 'not reproduced', out2[-1500:]))
                if failed:
                    reproduced = True
                    break
    finally:
        open(src_path, 'w').write(orig)
    os.makedirs(out_dir, exist_ok=True)
    open(os.path.join(out_dir, 'playback_test.rs'), 'w').write('\n'.join(body))
    open(os.path.join(out_dir, 'native_run.txt'), 'w').write('\n'.join(text))
    open(os.path.join(out_dir, 'README'), 'w').write(
        'Counterexample of Kani harness %s::%s, as a concrete-playback unit test, and the output of running it natively\n'
        '(cargo kani playback) against /repo\'s sources. Re-run: /verif/check %s --replay %s\n' % (mod, harness, '', out_dir))
    return reproduced, '\n'.join(text)


def e1_part(rep, prop, mod, harnesses, functions, bounds_text, jobs=14, per_harness_timeout=600, extra=(), mem_kb=14_000_000):
    """runs the harnesses, reports into rep, returns the coverage dict of this part"""
    with Lock('kani'):
        crate = e1.gen_crate([mod])
        gen_tables(crate)
        res, out, rc, wall = e1.run_harnesses(mod, harnesses, jobs=jobs, timeout=per_harness_timeout * 3 + 600,
                                              per_harness_timeout=per_harness_timeout, extra=extra, mem_kb=mem_kb)
        if 'error: could not compile' in out or 'error[E' in out:
            rep.inconc('harness crate does not compile against the current tree:\n' + '\n'.join(
                l for l in out.split('\n') if l.startswith('error'))[:2000])
        samples = []
        solver_time = 0.0
        nontrivial = 0
        checks = 0
        for h in harnesses:
            r = res[h]
            solver_time += r['time'] or 0
            checks += r['checks']
            fam = family(h)
            samples.append(dict(harness=h, symbolic_inputs=FAMILIES.get(fam, ''), status=r['status'], solver_s=r['time'],
                                cover_witnesses=r['covers'], cbmc_checks=r['checks']))
            if r['status'] == 'SUCCESSFUL':
                if r['covers'] and r['covers'][0] != r['covers'][1]:
                    rep.inconc('%s: only %d of %d reachability witnesses satisfiable (vacuity guard)' % (h, *r['covers']))
                else:
                    nontrivial += 1
            elif r['status'] == 'FAILED' and not r['unwind_fail'] and r['failed']:
                rdir = os.path.join(REPLAYS, prop, h)
                ok, text = replay(mod, h, rdir)
                what = '; '.join(sorted(set(f.strip('"') for f in r['failed'])))
                if ok:
                    rep.violation('%s/%s' % (fam, what), '%s: %s (counterexample replayed natively)' % (h, what), rdir)
                else:
                    rep.inconc('%s FAILED under CBMC but the counterexample did not reproduce natively (ENCODING-MISMATCH): %s' % (h, what))
            elif r['status'] == 'FAILED' and r['unwind_fail']:
                rep.inconc('%s: unwinding assertion failed (bound too small)' % h)
            else:
                rep.inconc('%s: %s (no verdict: timeout / out of memory / unsupported)\n%s' % (h, r['status'], r['raw'][-600:]))
    cov = dict(
        evaluations=len(harnesses),
        distinct_nontrivial=nontrivial,
        rule='one evaluation = one CBMC/SAT decision of a Kani harness over all values of its symbolic inputs; '
             'non-trivial = verdict SUCCESSFUL with every kani::cover! reachability witness satisfiable (not vacuous)',
        samples=samples,
        exhaustive=False,
        functions_encoded=functions,
        bounds=bounds_text,
        cbmc_properties_checked=checks,
        solver_time_s=round(solver_time, 1),
        queries_discharged=len([h for h in harnesses if res[h]['status'] in ('SUCCESSFUL', 'FAILED')]),
        known_findings=[k for k, _ in rep.kf],
        inconclusive=rep.inconclusive,
    )
    return cov


def run_property(prop, mod, harnesses, tier, functions, assumptions, bounds_text, **kw):
    t0 = time.time()
    rep = Reporter(prop)
    cov = e1_part(rep, prop, mod, harnesses, functions, bounds_text, **kw)
    write_evidence(prop, tier, 'model_checking', cov, assumptions, time.time() - t0, len(rep.viol))
    return rep.exit_code()


# ------------------------------------------------------------------------------------------------ properties

def c06(tier):
    hs = e1.list_harnesses('c06')
    if tier == 'quick':
        hs = [h for h in hs if not re.match(r'c06_strnum_(5|6|7|8|9|10|11)$', h) and not re.match(r'c06_strlen_(5|6)$', h)]
    else:
        hs = [h for h in hs if not re.match(r'c06_strnum_(10|11)$', h)]
    return run_property(
        'C06', 'c06', hs, tier,
        functions=['helpers_content.rs restrictions::<impl CheckRestrictions for i8,u8,i16,u16,i32,u32,i64,u64,f32,f64,bool,String,Option<C>,Vec<C>>::check_restrictions (compiled unmodified by #[path])'],
        assumptions=[
            'stub: alloc::fmt::format returns an empty String (error-message text is not the subject)',
            'integer carriers: length/enumeration facets left absent (XSD does not apply length facets to numbers)',
            'strings are instantiated per concrete byte length; alphabet {ASCII printable, U+00E9, U+20AC} (strlen), {0-9,+,-,a} (strnum), {a,b,A} (enum)',
            'mem::forget of results/Rc to skip drop glue; Kani default checks (overflow, bounds, unwrap) on; unwinding assertions on',
        ],
        bounds_text='integers: full width, facets any Option<i32>; strings: 0..%d bytes (length facets), 0..%d bytes (numeric text), <=2 bytes x <=2 members (enumeration); Vec <= 3 items. Outside: longer strings, whitespace collapsing, decimal facets.' % ((4, 4) if tier == 'quick' else (6, 9)),
        per_harness_timeout=300 if tier == 'quick' else 2400)


def c19(tier):
    hs = e1.list_harnesses('c19')
    return run_property(
        'C19', 'c19', hs, tier,
        functions=['helpers_content.rs multi_ref::MultiRef<T>: new, CheckRestrictions, YaSerialize::{serialize, serialize_attributes}, YaDeserialize::deserialize, Default, Clone, Deref'],
        assumptions=[
            'T = a probe type whose trait methods log (method, self tag, argument identity) and return arbitrary scripted results; forwarding for an arbitrary implementation implies the same XML / value / restriction result as the bare value',
            'Serializer / Deserializer arguments are uninitialised memory that is never dereferenced (only their address is compared), except the serializer\'s skip_start_end flag (set and read through its accessors)',
            'Debug forwarding is not harnessed (needs a core::fmt::Formatter; fmt machinery is out of CBMC reach)',
            "yaserde's own derive output is outside the claim",
        ],
        bounds_text='attribute vectors <= 2; error strings 1 byte; one call per harness (two in c19_check_restrictions_every_time); wrappers nested <= 2 deep')


def c14_kw_part(rep, tier):
    hs = e1.list_harnesses('c14')
    return e1_part(rep, 'C14', 'c14', hs,
                   functions=['model/field.rs rename_keywords (compiled unmodified by #[path])'],
                   bounds_text='every identifier-shaped string of 1..10 bytes over [a-z0-9_S] (covers every snake_case keyword; the longest keyword has 8 letters)',
                   per_harness_timeout=600)


def c02_table_part(rep, tier):
    hs = e1.list_harnesses('c02')
    return e1_part(rep, 'C02', 'c02', hs, jobs=4,
                   functions=['model/field.rs as_rust_type, split_type (compiled unmodified by #[path])'],
                   bounds_text='every byte string of L printable ASCII bytes without ":" as a type name, for L in {1..9, 11, 12, 13, 15, 16, 18} (every length at which a builtin name exists, plus 1 and 2)',
                   per_harness_timeout=3000, mem_kb=40_000_000)     # CBMC's address space passes 14 GB on these (RSS stays near 4 GB)


# ------------------------------------------------------------------------------------------------ C07(a): Kani on generated code
GEN_CRATE = os.path.join(BUILD, 'kani_gen_crate')
GEN_TARGET = os.path.join(BUILD, 'kani_gen_target')


def c07_generated_part(rep, tier):
    """generate code with the native zeep built from /repo, include it in a Kani crate, run the leaf harnesses"""
    sys_path = os.path.join(VERIF, 'smi')
    import sys
    if sys_path not in sys.path:
        sys.path.insert(0, sys_path)
    import native
    zeep = native.build_zeep()
    src = os.path.join(GEN_CRATE, 'src')
    os.makedirs(src, exist_ok=True)
    fixture = os.path.join(VERIF, 'smi/corpus/facets2.xsd')
    shutil.copyfile(fixture, os.path.join(GEN_CRATE, 'facets.xsd'))
    rc, out, _ = native.run_zeep(zeep, os.path.join(GEN_CRATE, 'facets.xsd'), os.path.join(src, 'generated.rs'))
    if rc != 0:
        rep.inconc('C07(a): the native zeep fails on smi/corpus/facets2.xsd: ' + out[-400:])
        return dict(evaluations=0, distinct_nontrivial=0)
    toml = open(os.path.join(REPO, 'zeep-lib/Cargo.toml')).read()
    deps = re.search(r'\[dependencies\](.*?)(\n\[|\Z)', toml, re.S).group(1)
    keep = [l for l in deps.split('\n') if re.match(r'\s*(yaserde|yaserde_derive|xml-rs|log|reqwest|tokio)\b', l)]
    cargo = '[package]\nname = "zeep-generated"\nversion = "0.1.0"\nedition = "2024"\n\n[workspace]\n\n[dependencies]\n%s\n\n[lints.rust]\nunexpected_cfgs = { level = "allow" }\n' % '\n'.join(keep)
    e1._write_if_changed(os.path.join(GEN_CRATE, 'Cargo.toml'), cargo)
    shutil.copyfile(os.path.join(REPO, 'Cargo.lock'), os.path.join(GEN_CRATE, 'Cargo.lock'))
    shutil.copyfile(os.path.join(VERIF, 'kani_gen/harness.rs'), os.path.join(src, 'harness.rs'))
    e1._write_if_changed(os.path.join(src, 'lib.rs'), '#![allow(unused, clippy::all)]\npub mod generated;\n#[cfg(kani)]\nmod harness;\n')
    hs = re.findall(r'(?:code_at|short_at)!\((\w+),', open(os.path.join(VERIF, 'kani_gen/harness.rs')).read()) + \
        re.findall(r'#\[kani::proof\](?:\s*#\[[^\]]*\])*\s*fn (\w+)\s*\(', open(os.path.join(VERIF, 'kani_gen/harness.rs')).read())
    hs = [h for h in hs if not h.startswith('$')]
    with Lock('kani_gen'):
        res, out, rc, wall = e1.run_harnesses('harness', hs, jobs=5, timeout=7200, per_harness_timeout=1500, crate=GEN_CRATE, target=GEN_TARGET)
    if 'error: could not compile' in out or 'error[E' in out:
        rep.inconc('C07(a): the generated code / harness does not compile under Kani:\n' + '\n'.join(l for l in out.split('\n') if l.startswith('error'))[:1500])
    samples = []
    nontrivial = 0
    for h in hs:
        r = res[h]
        samples.append(dict(harness=h, status=r['status'], solver_s=r['time'], cover_witnesses=r['covers'], cbmc_checks=r['checks']))
        if r['status'] == 'SUCCESSFUL':
            nontrivial += 1
        elif r['status'] == 'FAILED' and r['failed'] and not r['unwind_fail']:
            what = '; '.join(sorted(set(f.strip('"') for f in r['failed'])))
            rdir = save_replay('C07', 'generated_' + h, {'finding.txt': 'Kani harness %s over the generated code fails: %s\n%s\n' % (h, what, r['raw'][-1500:]),
                                                         'facets.xsd': open(fixture).read(), 'generated.rs': open(os.path.join(src, 'generated.rs')).read()})
            rep.violation('c07-generated/%s/%s' % (re.sub(r'_len\d+$', '', h), what), '%s: %s' % (h, what), rdir)
        else:
            rep.inconc('C07(a) %s: %s (no verdict)' % (h, r['status']))
    return dict(evaluations=len(hs), distinct_nontrivial=nontrivial, samples=samples, fixture='smi/corpus/facets2.xsd',
                bounds='one symbolic leaf (ASCII string of a fixed length 1..4 / two digits) per harness at depth 1-2, inside Vec and Option members and as an attribute; all other leaves valid',
                functions_encoded=['the check_restrictions impls zeep generates for facets.xsd + helpers_content.rs restrictions module, as emitted'])
