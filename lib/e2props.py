"""E2 property drivers (SMI: symbolic MIR interpretation + z3)."""
import json, os, re, sys, tempfile, time, itertools
import z3
from common import *

sys.path.insert(0, os.path.join(VERIF, 'smi'))
import harness as H
import native
from interp import Panic, Unsupported, Divergence, Adt, Sink, Ref, deref, as_str, ENUMS
from models import explore
from sym import Selector, SymVal, smap, Infeasible


class Session:
    """one E2 check run: context, interpreter validation, counters for the evidence file"""

    def __init__(self, prop, tier):
        self.prop = prop
        self.tier = tier
        self.t0 = time.time()
        self.rep = Reporter(prop)
        self.paths = 0
        self.queries = 0
        self.steps = 0
        self.solver_s = 0.0
        self.validated = 0
        self.replays = 0
        self.samples = []
        self.scenarios = 0
        self.nontrivial = 0
        self.functions = set()
        self.ctx = None
        self.parts = {}
        self.assumptions = [
            'environment models of std / roxmltree are trusted (smi/models.py); Inflector and url are the real crates called natively',
            'MIR dumped from /repo working tree with nightly rustc (-C debug-assertions=off -C overflow-checks=on)',
            'const_format file header taken from the natively built binary',
        ]

    def start(self, fixtures=None):
        try:
            self.ctx = H.context()
        except Exception as e:
            self.rep.inconc('cannot build / dump MIR of the current tree: %s' % (str(e)[-800:],))
            return False
        try:
            ok, bad = H.validate_against_native(self.ctx, fixtures)
        except Unsupported as e:
            self.rep.inconc('UNSUPPORTED while validating the interpreter on repository fixtures: %s' % e)
            return False
        self.validated += ok
        if bad and self.prop == 'C12':
            # a mismatch on a repository fixture may be the property itself failing: does the NATIVE output vary between fresh processes?
            for rel, why in bad:
                path = os.path.join(REPO, rel)
                name = os.path.basename(path)
                files = {name: open(path).read()}
                for f in sorted(os.listdir(os.path.dirname(path))):
                    if f.endswith('.xsd') and f != name:
                        files[f] = open(os.path.join(os.path.dirname(path), f)).read()
                outs = set()
                for _ in range(24):
                    rc, nat, _log = H.native_generate(self.ctx, files, name)
                    outs.add(nat)
                    if len(outs) > 1:
                        break
                self.replays += 1
                if len(outs) > 1:
                    two = sorted(o or '' for o in outs)[:2]
                    rdir = save_replay('C12', 'native_output_varies_' + re.sub(r'\W+', '_', name), dict(list(files.items()) + [
                        ('finding.txt', 'the native binary produces different outputs for %s in fresh processes\n' % rel), ('output_A.rs', two[0]), ('output_B.rs', two[1])]))
                    self.rep.violation('c12/hash-seed/native-output-varies', '%s: the native output differs between fresh processes on identical input' % rel, rdir)
            if self.rep.viol:
                return False
        if bad:
            self.rep.inconc('interpreter does not reproduce the native binary on repository fixtures: %r' % (bad,))
            return False
        return True

    def count(self, results):
        for m, out in results:
            self.paths += 1
            self.queries += m.queries
            self.steps += m.steps

    def finish(self, level, bounds, extra_assumptions=(), explanation=None):
        cov = dict(
            states=max(self.paths, 1),
            transitions=max(self.queries, 1),
            traces_validated_against_impl=self.validated + self.replays,
            samples=self.samples[:12] or ['(no scenario ran)'],
            evaluations=max(self.scenarios, 1),
            distinct_nontrivial=self.nontrivial,
            rule='states = symbolic paths explored to an end state (each stands for every concrete input satisfying its path condition); '
                 'transitions = z3 queries discharged (branch feasibility + assertion checks); evaluations = scenarios (parametrised '
                 'document sets) explored; non-trivial = scenarios with more than one feasible path or a satisfiable witness per assertion',
            paths=self.paths, solver_queries=self.queries, mir_steps=self.steps,
            functions_encoded=sorted(self.functions)[:60],
            mir_bodies_available=self.ctx.n_bodies if self.ctx else 0,
            bounds=bounds,
            fixtures_reproduced_byte_identically=self.validated,
            native_replays=self.replays,
            known_findings=[k for k, _ in self.rep.kf],
            inconclusive=self.rep.inconclusive,
            exhaustive=False,
        )
        if explanation:
            cov['explanation'] = explanation
        for k, part in self.parts.items():
            cov[k] = part
            cov['evaluations'] += part.get('evaluations', 0)
            cov['distinct_nontrivial'] += part.get('distinct_nontrivial', 0)
        write_evidence(self.prop, self.tier, level, cov, self.assumptions + list(extra_assumptions), time.time() - self.t0,
                       len(self.rep.viol))
        return self.rep.exit_code()

    def unsupported(self, e):
        self.rep.inconc('UNSUPPORTED %s' % e)


def run_e2(prop, tier, body, level='model_checking', bounds='', extra_assumptions=(), fixtures=None, explanation=None):
    s = Session(prop, tier)
    if s.start(fixtures):
        try:
            body(s)
        except Unsupported as e:
            s.unsupported(e)
    rc = s.finish(level, bounds, extra_assumptions, explanation)
    if rc == 2 and any('UNSUPPORTED' in m for m in s.rep.inconclusive) and not s.rep.viol:
        return 3
    return rc


def corpus_files(name):
    p = os.path.join(VERIF, 'smi/corpus', name)
    return {name: open(p).read()}


def repo_files(rel):
    path = os.path.join(REPO, rel)
    name = os.path.basename(path)
    files = {name: open(path).read()}
    d = os.path.dirname(path)
    for f in sorted(os.listdir(d)):
        if f.endswith('.xsd') and f != name:
            files[f] = open(os.path.join(d, f)).read()
    return name, files


def write_files(d, files):
    for n, t in files.items():
        p = os.path.join(d, n)
        os.makedirs(os.path.dirname(p), exist_ok=True)
        open(p, 'w').write(t)


def called_functions(ctx, roots):
    """names of interpreted zeep bodies (for the evidence file): all non-test fn bodies"""
    return [n for n, b in ctx.bodies.items() if b.kind == 'fn' and '::tests::' not in n and 'yaserde_tests' not in n]


# ================================================================================================ C15

def c15(tier):
    def body(s):
        ctx = s.ctx
        driver = native.build_driver()
        docs = [('all_emitters.wsdl', corpus_files('all_emitters.wsdl'))]
        for rel in ['resources/hello/hello.wsdl', 'zeep-lib/test-data/extensions.xsd', 'resources/simple/simple.xsd']:
            if os.path.exists(os.path.join(REPO, rel)):
                name, files = repo_files(rel)
                docs.append((name, files))
        if tier == 'thorough':
            for rel in ['zeep-lib/test-data/tempconverter.wsdl', 'resources/number_services/number_services.wsdl',
                        'zeep-lib/test-data/single-complex.xsd', 'zeep-lib/test-data/use-of-groups.xsd', 'resources/weather/weather.wsdl',
                        'resources/blz_service/blz.wsdl', 'resources/smgr/userimport.xsd']:
                if os.path.exists(os.path.join(REPO, rel)):
                    name, files = repo_files(rel)
                    docs.append((name, files))
        s.functions.update(n for n in ctx.bodies if n.endswith('::write_xml') or 'write_' in n.split('::')[-1])
        direct = []
        for name, files in docs:
            s.scenarios += 1
            K = z3.Int('fail_at')
            # read once (concrete, no forks); the document is not mutated by write_xml
            m0 = H.machine(ctx)
            ftr = H.make_files(m0, files, name)
            r = H.read_xml(m0, ftr)
            if r.variant != 0:
                s.samples.append(dict(document=name, note='reader returns Err; nothing to write'))
                continue
            doc = r.fields[0]
            rfree, sfree = H.write_xml(H.machine(ctx), doc)
            N = sfree.n
            free_text = ''.join(sfree.rope) if all(isinstance(p, str) for p in sfree.rope) else None

            def entry(m):
                m.pc.append(K >= 0)
                sink = Sink(fail_at=K)
                sink.once = z3.Bool('fail_once')
                try:
                    r2, sink = H.write_xml(m, doc, sink)
                except Panic as e:
                    e.sink_n = sink.n
                    raise
                return (r2, sink)
            t1 = time.time()
            res = explore(lambda: H.machine(ctx), entry)
            s.solver_s += time.time() - t1
            s.count(res)
            if len(res) > 1:
                s.nontrivial += 1
            n_err = n_ok = 0
            bad = []
            for m, out in res:
                failed_at = [e[1] for e in m.events if e[0] == 'sink_fail']
                ekind = next((e[1] for e in m.events if e[0] == 'err_kind'), None)
                once = any(e[0] == 'sink_mode' for e in m.events)
                if out[0] == 'panic':
                    k = failed_at[0] if failed_at else getattr(out[1], 'sink_n', None)
                    bad.append(('panic', k, str(out[1]), out[1].where))
                elif out[0] == 'diverge':
                    bad.append(('diverge', None, str(out[1]), ''))
                else:
                    r2, sink = out[1]
                    if failed_at:
                        if r2.variant == 0:
                            bad.append(('false-success', failed_at[0], 'write_xml returned Ok although write call %d failed%s%s' % (failed_at[0], (' with io::ErrorKind::' + ekind) if ekind else '', ' (only that call fails; later calls are accepted)' if once else ''), 'kind=' + str(ekind), once))
                        else:
                            e = deref(r2.fields[0])
                            is_io = isinstance(e, Adt) and e.name == 'WriterError' and ENUMS['WriterError'][e.variant] == 'Io'
                            if not is_io:
                                bad.append(('wrong-error', failed_at[0], 'error is %r, not WriterError::Io' % (e,), ''))
                            n_err += 1
                    else:
                        # no failure injected on this path (k >= N): must be Ok with the unconstrained bytes
                        txt = ''.join(sink.rope) if all(isinstance(p, str) for p in sink.rope) else None
                        if r2.variant != 0 or txt != free_text:
                            bad.append(('no-fault-differs', None, 'run without an injected failure differs from the unconstrained run', ''))
                        n_ok += 1
            # short writes: a sink that accepts one byte per io::Write::write call; write_fmt / write_all loop in std, so the
            # complete output must still arrive (only a direct, unchecked write() call can lose bytes)
            ms = H.machine(ctx)
            ssink = Sink()
            ssink.short = True
            rs, ssink = H.write_xml(ms, doc, ssink)
            stext = ''.join(ssink.rope) if all(isinstance(p, str) for p in ssink.rope) else None
            s.paths += 1
            if rs.variant != 0 or stext != free_text:
                d = tempfile.mkdtemp(prefix='zeep-verif-c15.')
                try:
                    write_files(d, files)
                    rc1, out1, _ = native.run_driver(driver, d, name, os.path.join(d, '__s'), short=True)
                    rc2, out2, _ = native.run_driver(driver, d, name, os.path.join(d, '__f'))
                    sb = open(os.path.join(d, '__s.0'), 'rb').read() if os.path.exists(os.path.join(d, '__s.0')) else None
                    fb = open(os.path.join(d, '__f.0'), 'rb').read() if os.path.exists(os.path.join(d, '__f.0')) else None
                finally:
                    rmtree(d)
                s.replays += 1
                rdir = save_replay('C15', '%s_short_write' % name, dict(list(files.items()) + [
                    ('replay.sh', '%s gen . %s out --short\n' % (driver, name)), ('native_output.txt', out1 + out2),
                    ('finding.txt', 'a sink that accepts one byte per write() call receives %s bytes, an unconstrained one %s\n' % (len(sb or b''), len(fb or b'')))]))
                if sb != fb:
                    s.rep.violation('c15/short-write-loses-bytes', '%s: with a short-writing sink the output is not the complete output (io::Write::write result ignored)' % name, rdir)
                else:
                    s.rep.inconc('ENCODING-MISMATCH %s short write: SMI output differs but native outputs agree' % name)
            s.samples.append(dict(document=name, write_calls=N, paths=len(res), err_paths=n_err, ok_paths=n_ok,
                                  violations=[b[:3] for b in bad][:5], fail_at='symbolic k in [0, %d]' % N))
            # replay every distinct violation class natively
            seen = set()
            for kind, k, msg, where, *rest in bad:
                once = bool(rest and rest[0])
                fn = re.sub(r'<impl at [^>]*>', '<impl>', where or '')
                ek = None
                if fn.startswith('kind='):
                    ek = fn[5:] if fn[5:] != 'None' else None
                    fn = 'error-kind-' + str(ek)
                key = 'c15/%s/%s' % (kind, '::'.join(fn.split('::')[-2:]) if fn else name)
                if key in seen:
                    continue
                seen.add(key)
                if k is None:
                    s.rep.inconc('%s: %s %s (no failure index to replay)' % (name, kind, msg))
                    continue
                d = tempfile.mkdtemp(prefix='zeep-verif-c15.')
                try:
                    write_files(d, files)
                    rc, out, _ = native.run_driver(driver, d, name, os.path.join(d, '__o'), fail_at=k, kind=ek, once=once)
                finally:
                    rmtree(d)
                s.replays += 1
                native_bad = ('PANIC' in out) if kind == 'panic' else ('RUN 0: OK' in out) if kind == 'false-success' else ('WRITE_ERR Io' not in out)
                rdir = save_replay('C15', '%s_k%d' % (name, k), dict(list(files.items()) + [
                    ('replay.sh', '#!/bin/sh\n# sink fails at write call %d\n%s gen . %s out --fail-at %d%s\n' % (k, driver, name, k, ' --once' if once else '')),
                    ('native_output.txt', out), ('finding.txt', '%s at write call %d: %s\nin %s\n' % (kind, k, msg, where))]))
                if native_bad:
                    s.rep.violation(key, '%s: sink failure at write call %d -> %s (%s)' % (name, k, kind, msg), rdir)
                else:
                    s.rep.inconc('ENCODING-MISMATCH %s k=%d: SMI says %s, native driver says: %s' % (name, k, kind, out.strip()[:200]))
            # replay two non-violating points as well (cross-check of the Err / Ok classification)
            for k in ([0, N // 2] if N > 1 else [0]):
                d = tempfile.mkdtemp(prefix='zeep-verif-c15.')
                try:
                    write_files(d, files)
                    rc, out, _ = native.run_driver(driver, d, name, os.path.join(d, '__o'), fail_at=k)
                finally:
                    rmtree(d)
                smi_kind = next((b[0] for b in bad if b[1] == k and 'kind=' not in (b[3] or '')), 'err')
                nat_kind = 'panic' if 'PANIC' in out else 'err' if 'WRITE_ERR Io' in out else 'other'
                if (smi_kind == 'err') != (nat_kind == 'err'):
                    s.rep.inconc('ENCODING-MISMATCH %s k=%d: SMI %s vs native %s' % (name, k, smi_kind, out.strip()[:160]))
                else:
                    s.replays += 1
        if direct:
            rd = save_replay('C15', 'direct_write', {'finding.txt': 'direct io::Write::write calls in: %s\n' % sorted(set(direct))})
            s.rep.violation('c15/direct-write', 'zeep calls io::Write::write directly (short writes may lose bytes): %s' % sorted(set(direct))[:3], rd)
    return run_e2('C15', tier, body, level='model_checking',
                  bounds='failure index k symbolic over [0, N] (N = number of write!/writeln! calls of the document, 50..400) x symbolic failure mode (persistent from call k on / only call k fails) per corpus document; '
                         'corpus: all-emitters WSDL + repository fixtures; error kind abstract (one io::Error). Short writes: reduced to the MIR call-graph '
                         'fact that zeep only calls write_fmt (std loops until the buffer is written). Outside: documents not in the corpus.',
                  extra_assumptions=['the reader part is run concretely once per document; write_xml does not mutate the document',
                                     'failure granularity = one write!/writeln! call (io::Write::write_fmt) or one flush of a std::io::BufWriter into the sink (buffer capacity not modelled: one flush = one call)'])


# ================================================================================================ scenario runner
import families as F
import oracles as O
import rustout as RO
from schema_model import Env, pascal
from scen import Scenario


def mod_map(items, info, env):
    """prefix -> module, read off the output: the module that holds the struct of a known component of that namespace"""
    mod_of_uri = {}
    derived_comps = [(fn, ct) for fn, ct, _b in getattr(info, 'derived', [])]
    for fn, comp in info.subjects + getattr(info, 'anon', []) + getattr(info, 'simple', []) + derived_comps:
        sch = info.schemas[fn]
        uri = sch.tns
        if uri in mod_of_uri or not isinstance(uri, str):
            continue
        nm = comp.name
        if not isinstance(nm, str):
            continue
        first = None
        content = getattr(comp, 'content', None)
        if content is not None and getattr(content, 'items', None) and (fn, comp) not in derived_comps:
            f0 = content.items[0]
            first = getattr(f0, 'name', None) if isinstance(getattr(f0, 'name', None), str) else None
        for it in items:
            if it.kind == 'struct' and RO.one(it.name) == pascal(nm) and isinstance(it.name, str):
                if first is not None and it.fields and RO.one(O.attr_get(it.fields[0][0], 'rename')) != first:
                    continue        # a same-named component of another namespace
                mod_of_uri[uri] = RO.one(it.module) if it.module is not None else None
                break
    out = {}
    for sch in info.schemas.values():
        for p, u in sch.prefixes.items():
            if u in mod_of_uri:
                out[p] = mod_of_uri[u]
        d = getattr(sch, 'default_ns', None)
        if d is not None and d in mod_of_uri:
            out[None] = mod_of_uri[d]
    return out, mod_of_uri


def eval_checks(s, sc, m, checks, on_violation):
    """solver: is pc ∧ ¬ok satisfiable for some check? -> on_violation(check, model)"""
    n = 0
    for c in checks:
        cond = RO.cond_false(c.ok)
        if cond is None:
            continue
        model = sc.solve(m, cond)
        n += 1
        if model is not None:
            on_violation(c, model)
    return n


def scenario_check(s, sc, info, oracle, classify=None, accept_errors=True):
    """explore a scenario; evaluate the oracle on every Ok path; replay every solver-found violation natively"""
    ctx = s.ctx
    s.scenarios += 1
    t1 = time.time()
    res = sc.explore(ctx)
    s.count(res)
    if len(res) > 1:
        s.nontrivial += 1
    reported = set()
    stats = dict(scenario=sc.name, paths=len(res), ok=0, err=0, panic=0, diverge=0, checks=0, violations=[],
                 symbolic={x.name: (x.options if len(x.options) <= 8 else x.options[:6] + ['… %d values' % len(x.options)]) for x in sc.selectors})
    for m, out in res:
        if out[0] == 'panic':
            stats['panic'] += 1
            continue
        if out[0] == 'diverge':
            stats['diverge'] += 1
            continue
        r = out[1]
        if r[0] != 'ok':
            stats['err'] += 1
            continue
        stats['ok'] += 1
        sink = r[1]
        try:
            items, lines = RO.parse_output(sink.rope, m.allowed)
        except RO.Structure as e:
            s.rep.inconc('%s: output structure depends on symbolic text: %s' % (sc.name, e))
            continue
        env = Env(None, m.allowed)
        env.lines = lines
        checks = oracle(env, items, info, m)

        def on_violation(c, model, m=m):
            params = sc.params(model)
            cls = classify(c, params, info) if classify else ''
            key = '%s/%s%s' % (sc.name.lower(), c.key, ('/' + cls) if cls else '')
            if key in reported:
                return
            reported.add(key)
            stats['violations'].append(key)
            # native replay: the real binary on the concretised files, same oracle evaluated concretely
            rc, txt, log_, files = sc.native(ctx, model)
            s.replays += 1
            rdir = save_replay(s.prop, re.sub(r'[^\w.-]+', '_', key)[:80], dict(list(files.items()) + [
                ('params.json', json.dumps(params, indent=1, default=str)),
                ('finding.txt', '%s\n%s\nparameters: %s\n' % (key, c.what, params)),
                ('native_output.rs', txt or ''), ('native_log.txt', log_ or '')]))
            if rc != 0 or txt is None:
                s.rep.inconc('ENCODING-MISMATCH %s: SMI produced output but native zeep failed (rc=%s) for %s' % (key, rc, params))
                return
            try:
                nitems, nlines = RO.parse_output([txt])
                nenv = Env(model)
                nenv.lines = nlines
                nchecks = oracle(nenv, nitems, info, None)
            except Exception as e:
                s.rep.inconc('%s: cannot evaluate the oracle on the native output: %r' % (key, e))
                return
            failing = [nc for nc in nchecks if nc.key == c.key and nc.ok is not True and not (isinstance(nc.ok, SymVal))]
            if failing:
                s.rep.violation(key, '%s [%s]' % (failing[0].what, ', '.join('%s=%s' % kv for kv in sorted(params.items()) if kv[1] != '\x00absent')[:300]), rdir)
            else:
                s.rep.inconc('ENCODING-MISMATCH %s: solver model %s does not violate %s on the native output' % (key, params, c.key))
        stats['checks'] += eval_checks(s, sc, m, checks, on_violation)
    s.solver_s += time.time() - t1
    s.samples.append(stats)
    return res, stats


# ================================================================================================ C02

def occ_class(c, params, info):
    """witness class of a member finding: which occurrence / position feature the model exhibits"""
    if c.cls is not None:
        return c.cls(params)
    bits = []
    for k in sorted(params):
        v = params[k]
        if k.startswith('max') or k.startswith('pmax'):
            if v not in ('\x00absent', '1'):
                bits.append('%s=%s' % (k.rstrip('0123456789'), 'n>1' if v != 'unbounded' else 'unbounded'))
        elif k.startswith('min') or k.startswith('pmin'):
            if v == '0':
                bits.append('%s=0' % k.rstrip('0123456789'))
        elif k == 'inner_kind':
            bits.append(v)
    return ','.join(sorted(set(bits)))


def members_oracle(env, items, info, m):
    mp, _ = mod_map(items, info, env)
    out = []
    for fn, ct in info.subjects:
        sch = info.schemas[fn]
        out += O.check_struct_members(env, items, sch, ct, ct.name, mp)
    for fn, gel in getattr(info, 'anon', []):
        sch = info.schemas[fn]
        fake = F.CT(gel.name, gel.content, gel.attrs)
        out += O.check_struct_members(env, items, sch, fake, gel.name, mp, tag=' (anonymous-typed global element)')
    for fn, ct, base in getattr(info, 'derived', []):
        bf = inherited_fields(env, info, base[0], base[1], mp)
        out += O.check_struct_members(env, items, info.schemas[fn], ct, ct.name, mp, base_fields=bf, tag=' (derived)')
    for fn, st in getattr(info, 'simple', []):
        name = pascal(st.name)
        n = len(O.find_structs(items, name, env.allowed))
        out.append(O.Check('struct-exactly-once', 'exactly one struct for simple type %s (found %d)' % (st.name, n), n == 1))
    try:
        out += references_resolve(items)
    except RO.Structure:
        pass
    return out


def c02(tier):
    def body(s):
        fams = F.s_seq(tier) + F.s_nest(tier) + [F.s_ref_anon_fwd(tier), F.s_xns(tier), F.s_typenames(tier), F.s_shapes(tier)]
        s.functions.update(n for n in s.ctx.bodies if re.search(r'try_from_node|import_|read_(xsd|sequence|complex)|as_rust_type|write_(complex|type_alias)|field', n) and '::tests::' not in n)
        for sc, info in fams:
            scenario_check(s, sc, info, members_oracle, classify=occ_class)
        if tier == 'thorough':
            import e1props
            s.parts['kani_builtin_table'] = e1props.c02_table_part(s.rep, tier)
            s.assumptions.append('Kani part: to_pascal_case stubbed by a tagging function; RandomState::new stubbed (no getrandom under Kani)')
    return run_e2('C02', tier, body, bounds='scenario families S-seq, S-nest (sequence/choice inside sequence), S-ref-anon-fwd (all or 4 declaration '
                  'orders), S-xns (imported namespace), S-typenames (type / element names incl. builtin-like and xml-leading ones), S-shapes (choice or xs:all as the content model, annotations among the particles, choice directly under xs:extension); per member: name over %d case styles incl. keywords, type over the 27 builtins + user types, '
                  'minOccurs in {absent,0,1}, maxOccurs in {absent,1,2,unbounded} on the element and on the enclosing particle, use in {absent,optional,required}. '
                  'Outside: deeper nesting, more than 4 members per content model.' % (12 if tier == 'thorough' else 9))


# ================================================================================================ C11

def reach_formulas(info):
    """z3 Bool per file: reachable from the (symbolic) start through the (symbolic) import edges"""
    n = info.nfiles
    start = info.start
    wk = getattr(info, 'wk', {})

    def edge(j, i):
        ds = []
        for k, sel in enumerate(info.edges[j]):
            c = sel.var == info.opts.index(info.names[i])
            nss = info.edge_ns.get((j, k)) if hasattr(info, 'edge_ns') else None
            if nss is not None:
                c = z3.And(c, nss.var == 0)
            ds.append(c)
        return z3.Or(*ds) if ds else z3.BoolVal(False)
    r = [start.var == i for i in range(n)]
    for _ in range(n):
        r = [z3.Or(r[i], *[z3.And(r[j], edge(j, i)) for j in range(n) if j != i]) for i in range(n)]
    missing_reach = z3.BoolVal(False)
    if 'missing.xsd' in info.opts:
        mi = info.opts.index('missing.xsd')
        missing_reach = z3.Or(*[z3.And(r[j], sel.var == mi) for j in range(n) for sel in info.edges[j]])
    return r, missing_reach


def cli_unreachable_siblings(s):
    """C11, file-collection half (utils.rs): the CLI is run over a model of the file system in which an UNREACHABLE sibling
    z.xsd is absent / a schema / malformed / not XML / unreadable / not UTF-8 (read_to_string fails); the process must exit 0 and
    write exactly the bytes it writes without that sibling"""
    ctx = s.ctx
    kind = Selector('unreachable_sibling', ['absent', 'schema', 'malformed', 'not-xml', 'unreadable'])
    spelling = Selector('path_spelling', [('absolute', '/w/in', '/w/in/a.xsd'), ('bare-name', '/w/in', 'a.xsd')])
    Z = {'schema': GOOD_B.replace('urn:b', 'urn:z').replace('name="B"', 'name="Zed"'), 'malformed': '<xs:schema xmlns:xs="http://www.w3.org/2001/XMLSchema"><xs:complexType',
         'not-xml': 'just some text\n', 'unreadable': 'irrelevant'}
    s.scenarios += 1

    def entry(m):
        m.pc.append(kind.domain)
        m.pc.append(spelling.domain)
        k = m.concretize(kind.sym())
        sp = m.concretize(spelling.sym())
        events = []
        files = {'/w/in/a.xsd': GOOD_A, '/w/in/b.xsd': GOOD_B}
        if k != 'absent':
            files['/w/in/z.xsd'] = Z[k]
        vfs = VFS(files, {'/w', '/w/in', '/'}, sp[1], events)
        if k == 'unreadable':
            vfs.unreadable.add('/w/in/z.xsd')
        m.hooks.append(cli_hook(vfs, {'-i': sp[2]}))
        main = [b for n, b in m.b.items() if n == 'main' and b.kind == 'fn'][0]
        outcome = 'exit0'
        try:
            m.run(main, [])
        except Panic as e:
            outcome = 'panic: ' + str(e)[:80]
        return dict(kind=k, spelling=sp[0], arg=sp[2], cwd=sp[1], outcome=outcome, out=vfs.files.get('/w/in/a.rs'))
    res = explore(lambda: H.machine(ctx, binary=True), entry)
    s.count(res)
    if len(res) > 1:
        s.nontrivial += 1
    base = {r['spelling']: r for m, (t, r) in res if t == 'ok' and r['kind'] == 'absent'}
    found = {}
    for m, out in res:
        if out[0] != 'ok':
            s.rep.inconc('C11 cli part: %s %s' % (out[0], out[1]))
            continue
        r = out[1]
        ref = base.get(r['spelling'])
        if ref is None or ref['outcome'] != 'exit0':
            continue
        if r['outcome'] != 'exit0':
            found.setdefault('cli/unreachable-sibling-changes-outcome/' + r['kind'], ('with an unreachable sibling z.xsd that is %s the generation fails (%s); without it, it succeeds' % (r['kind'], r['outcome']), r))
        elif r['out'] != ref['out']:
            found.setdefault('cli/unreachable-sibling-changes-output/' + r['kind'], ('an unreachable sibling z.xsd (%s) changes the bytes written' % r['kind'], r))
    s.samples.append(dict(scenario='cli-unreachable-siblings', paths=len(res), symbolic={'unreachable_sibling': kind.options, 'path_spelling': [o[0] for o in spelling.options]}, violations=sorted(found)))
    for key, (what, r) in sorted(found.items()):
        d = tempfile.mkdtemp(prefix='zeep-verif-c11.')
        try:
            os.makedirs(d + '/w/in')
            open(d + '/w/in/a.xsd', 'w').write(GOOD_A)
            open(d + '/w/in/b.xsd', 'w').write(GOOD_B)
            if r['kind'] == 'unreadable':
                open(d + '/w/in/z.xsd', 'wb').write(b'\xff\xfe\x00bad')     # not UTF-8: read_to_string fails (root ignores permissions)
            else:
                open(d + '/w/in/z.xsd', 'w').write(Z[r['kind']])
            arg = r['arg'] if not r['arg'].startswith('/') else d + r['arg']
            rc, log_, _ = run([ctx.zeep, '-i', arg], cwd=d + r['cwd'], timeout=60)
            os.remove(d + '/w/in/z.xsd')
            got = open(d + '/w/in/a.rs').read() if os.path.exists(d + '/w/in/a.rs') else None
            if os.path.exists(d + '/w/in/a.rs'):
                os.remove(d + '/w/in/a.rs')
            rc0, _l, _ = run([ctx.zeep, '-i', arg], cwd=d + r['cwd'], timeout=60)
            want = open(d + '/w/in/a.rs').read() if os.path.exists(d + '/w/in/a.rs') else None
        finally:
            rmtree(d)
        s.replays += 1
        rdir = save_replay('C11', re.sub(r'\W+', '_', key), {'finding.txt': '%s\n%s\nnative: with z.xsd rc=%s, without rc=%s\n%s\n' % (key, what, rc, rc0, log_[-400:]), 'a.xsd': GOOD_A, 'b.xsd': GOOD_B})
        if rc0 == 0 and (rc != 0 or got != want):
            s.rep.violation(key, what, rdir)
        else:
            s.rep.inconc('ENCODING-MISMATCH %s: natively rc=%s / %s' % (key, rc, rc0))


def c11(tier):
    def body(s):
        ctx = s.ctx
        cli_unreachable_siblings(s)
        s.functions.update(n for n in ctx.bodies if re.search(r'read_xml|read_xsd|process_import|::extend|extend_no_duplicates|::read$', n) and '::tests::' not in n)
        fams = [F.import_graph(3, 2), F.import_graph(2, 2, with_missing=True), F.import_nolocation(), F.imports_annotated(),
                F.import_graph(slots=1, names=['a.xsd', 'b.xsd', 'B.xsd'], tag='imports-case-sensitive-names')]
        if tier == 'thorough':
            fams += [F.import_graph(4, 1), F.import_graph(2, 3), F.import_graph(3, 2, with_missing=True)]
        for sc, info in fams:
            s.scenarios += 1
            res = sc.explore(ctx, max_paths=60000)
            s.count(res)
            if len(res) > 1:
                s.nontrivial += 1
            reach, missing_reach = reach_formulas(info)
            stats = dict(scenario=sc.name, files=info.nfiles, import_slots_per_file=info.slots, paths=len(res), ok=0, err=0, diverge=0, panic=0,
                         symbolic='target of every import slot over %s; start file over %s' % (info.opts, info.names), violations=[])
            reported = set()

            def report(key, what, m, cond=None, expect='crash'):
                if key in reported:
                    return
                model = sc.solve(m, cond)
                if model is None:
                    return
                reported.add(key)
                stats['violations'].append(key)
                params = sc.params(model)
                rc, txt, log_, files = sc.native(ctx, model)
                s.replays += 1
                graph = {fn: [params.get('imp_%d_%d' % (i, k)) for k in range(info.slots)] for i, fn in enumerate(info.names)}
                params.setdefault('start', sc.start if isinstance(sc.start, str) else None)
                rdir = save_replay('C11', re.sub(r'[^\w.-]+', '_', key)[:80], dict(list(files.items()) + [
                    ('finding.txt', '%s\n%s\nstart=%s imports=%s\n' % (key, what, params['start'], graph)),
                    ('native_output.rs', txt or ''), ('native_log.txt', (log_ or '')[-3000:])]))
                if expect == 'crash':
                    bad = rc != 0 and ('overflowed its stack' in (log_ or '') or rc in (-11, -6, 134, 139, -9))
                else:
                    bad = expect(rc, txt, log_, params)
                if bad:
                    s.rep.violation(key, '%s [start=%s imports=%s]' % (what, params['start'], graph), rdir)
                else:
                    s.rep.inconc('ENCODING-MISMATCH %s: native rc=%s %s' % (key, rc, (log_ or '')[-200:]))
            for m, out in res:
                pending = []

                def queue(key, what, m_, cond=None, expect='crash'):
                    pending.append((key, what, cond, expect))
                if out[0] == 'diverge':
                    stats['diverge'] += 1
                    report('imports/non-termination', 'generation does not terminate on an import graph with a cycle (unbounded recursion)', m)
                    continue
                if out[0] == 'panic':
                    stats['panic'] += 1
                    report('imports/panic', 'panic: %s' % out[1], m, expect=lambda rc, txt, lg, p: rc != 0 and 'panicked' in (lg or ''))
                    continue
                r = out[1]
                parsed = {e[1].split(':', 1)[1] for e in m.events if e[0] == 'parse' and e[1].startswith('\x00DOC:')}
                # a file that was parsed must be reachable (unreachable siblings never matter)
                for i, fn in enumerate(info.names):
                    if fn in parsed:
                        queue('imports/unreachable-file-read', 'file %s is parsed although it is not reachable from the start file' % fn, m, z3.Not(reach[i]),
                               expect=lambda rc, txt, lg, p: True)
                if r[0] != 'ok':
                    stats['err'] += 1
                    e = deref(r[1])
                    kind = ENUMS['WriterError'][e.variant] if isinstance(e, Adt) and e.name == 'WriterError' else '?'
                    # an error is only acceptable when a missing file is reachable
                    queue('imports/unexpected-error/' + kind, 'generation fails with %s although every reachable import resolves' % kind, m, z3.Not(missing_reach),
                           expect=lambda rc, txt, lg, p: rc != 0)
                    continue
                stats['ok'] += 1
                text = H.rope_text(m, r[1])
                conds = []
                for i, fn in enumerate(info.names):
                    cnt = len(re.findall(r'pub struct T%d \{' % i, text))
                    if cnt > 1:
                        queue('imports/component-duplicated', 'the type of %s is emitted %d times' % (fn, cnt), m, reach[i],
                               expect=lambda rc, txt, lg, p, i=i: txt is not None and len(re.findall(r'pub struct T%d \{' % i, txt)) > 1)
                    if cnt == 0:
                        queue('imports/component-missing', 'the type of reachable file %s is not emitted' % fn, m, reach[i],
                               expect=lambda rc, txt, lg, p, i=i: txt is not None and len(re.findall(r'pub struct T%d \{' % i, txt)) == 0)
                    if cnt >= 1:
                        queue('imports/unreachable-component-emitted', 'the type of unreachable file %s is emitted' % fn, m, z3.Not(reach[i]),
                               expect=lambda rc, txt, lg, p, i=i: txt is not None and len(re.findall(r'pub struct T%d \{' % i, txt)) >= 1)
                # Ok although a missing file is reachable?
                queue('imports/missing-file-ignored', 'generation succeeds although a reachable import names a file that does not exist', m, missing_reach,
                       expect=lambda rc, txt, lg, p: rc == 0)
                live = [p for p in pending if p[0] not in reported]
                if live:
                    disj = z3.Or(*[p[2] if p[2] is not None else z3.BoolVal(True) for p in live])
                    if sc.solve(m, disj) is not None:
                        for key, what, cond, expect in live:
                            report(key, what, m, cond, expect)
            s.samples.append(stats)
    return run_e2('C11', tier, body, bounds='every import multigraph over 3 files with 2 import slots each and every start file (quick), plus 2 files with a missing target; '
                  'thorough: adds 4 files x 1 slot, 2 files x 3 slots, 3 files x 2 slots with missing targets (4 x 2 would be 390 000 paths: outside). Reachability is encoded as a z3 formula over the slot selectors. '
                  'Divergence = call depth > 60 frames. Outside: more files, malformed siblings (never parsed: shown by the parse-event check).')


# ================================================================================================ C12

def c12(tier):
    def body(s):
        ctx = s.ctx
        driver = native.build_driver()
        s.functions.update(n for n in ctx.bodies if re.search(r'Soap(Binding|Service|Port|Message|Operation)|read_body_port_message|map_to_rust_node|write_soap|write_async|read_xml|Files::', n) and '::tests::' not in n)
        # ---- (i) hash seeds: every HashMap iterates in an arbitrary (symbolic) order
        docs = []
        w = F.wsdl_multi(3 if tier == 'thorough' else 2, multipart=True)
        from xmltree import build, to_xml
        docs.append(('multi.wsdl', {'multi.wsdl': to_xml(build(w.tree()))}))
        docs.append(('all_emitters.wsdl', corpus_files('all_emitters.wsdl')))
        docs.append(('order.xsd', {k: to_xml(build(v.tree())) for k, v in F.three_ns_doc().items()}))
        # two namespaces whose abbreviations collide (typ / typ1) are bound on the same root: the numbering must not depend on any map's order
        docs.append(('versions.xsd', {'versions.xsd': '<xs:schema xmlns:xs="http://www.w3.org/2001/XMLSchema" xmlns:old="http://example.com/orders/v1/types" '
                                      'xmlns:cur="http://example.com/orders/v2/types" targetNamespace="http://example.com/orders/v2/types" elementFormDefault="qualified">'
                                      '<xs:complexType name="OrderType"><xs:sequence><xs:element name="Id" type="xs:string"/><xs:element name="Previous" type="cur:OrderRefType" minOccurs="0"/>'
                                      '</xs:sequence></xs:complexType><xs:complexType name="OrderRefType"><xs:sequence><xs:element name="Id" type="xs:string"/></xs:sequence></xs:complexType></xs:schema>'}))
        if tier == 'thorough':
            for rel in ['resources/number_services/number_services.wsdl', 'zeep-lib/test-data/tempconverter.wsdl']:
                docs.append(repo_files(rel))
        for name, files in docs:
            s.scenarios += 1
            sc = Scenario('hash-order:' + name, files, name, [], hash_sym=True)
            res = sc.explore(ctx)
            s.count(res)
            texts = {}
            for m, out in res:
                if out[0] != 'ok' or out[1][0] != 'ok':
                    continue
                t = H.rope_text(m, out[1][1])
                texts.setdefault(t, []).append([e for e in m.events if e[0] == 'hash_order'])
            if len(res) > 1:
                s.nontrivial += 1
            s.samples.append(dict(check='hash-order', document=name, paths=len(res), distinct_outputs=len(texts),
                                  symbolic='iteration order of every HashMap (one permutation selector per map)'))
            if len(texts) > 1:
                # what differs: only the order of blocks, or the content (choice of the body part)?
                norm = {H.op_blocks_normalised(t) for t in texts}
                kind = 'order-of-operations' if len(norm) == 1 else 'content-depends-on-hash-order'
                key = 'c12/hash-seed/' + kind
                # native replay (statistical by nature): fresh processes until two outputs differ
                seen = set()
                for i in range(48):
                    rc, txt, lg = H.native_generate(ctx, files, name)
                    seen.add(txt)
                    if len(seen) > 1:
                        break
                s.replays += 1
                two = list(texts)[:2]
                rdir = save_replay('C12', 'hash_' + re.sub(r'\W+', '_', name) + '_' + kind, dict(list(files.items()) + [
                    ('finding.txt', '%s: %d distinct outputs over the HashMap iteration orders; native: %d distinct outputs in %d fresh processes\n' % (key, len(texts), len(seen), i + 1)),
                    ('output_order_A.rs', two[0]), ('output_order_B.rs', two[1])]))
                if len(seen) > 1:
                    s.rep.violation(key, '%s: output differs between processes (%s)' % (name, kind), rdir)
                else:
                    s.rep.inconc('ENCODING-MISMATCH %s: SMI finds %d outputs over hash orders but 48 native runs agree' % (name, len(texts)))
        # ---- (ii) registration order of the file set, (iii) repeated calls on the same FilesToRead
        from schema_model import CT, Seq, El, Schema as Sch
        fa = Sch('urn:a', [CT('A', Seq([El('x', 'b:B'), El('y', 'c:C')]))], prefixes={'a': 'urn:a', 'b': 'urn:b', 'c': 'urn:c'}, imports=[('urn:b', 'b.xsd'), ('urn:c', 'c.xsd')])
        fb = Sch('urn:b', [CT('B', Seq([El('z', 'c:C')]))], prefixes={'b': 'urn:b', 'c': 'urn:c'}, imports=[('urn:c', 'c.xsd')])
        fc = Sch('urn:c', [CT('C', Seq([El('w', 'xs:int')]))], prefixes={'c': 'urn:c'})
        fC = Sch('urn:cu', [CT('CU', Seq([El('u', 'xs:int')]))], prefixes={'u': 'urn:cu'})
        # 'C.xsd' is a different file from 'c.xsd' (names differ by case only); nothing imports it
        files3 = {'a.xsd': to_xml(build(fa.tree())), 'b.xsd': to_xml(build(fb.tree())), 'c.xsd': to_xml(build(fc.tree())), 'C.xsd': to_xml(build(fC.tree()))}
        from xmltree import perms as _perms
        order = Selector('registration_order', [tuple(['a.xsd', 'b.xsd', 'c.xsd', 'C.xsd'][i] for i in p) for p in _perms(4)])
        repeat = Selector('calls', [1, 2, 3])
        # the same file set with one more import in a.xsd that names an unregistered file: every call must fail the same way
        fa_broken = Sch('urn:a', fa.components, prefixes=fa.prefixes, imports=list(fa.imports) + [('urn:d', 'missing.xsd')])
        files3_broken = dict(files3)
        files3_broken['a.xsd'] = to_xml(build(fa_broken.tree()))
        broken = Selector('file_set', ['complete', 'import-of-unregistered-file'])
        s.scenarios += 1

        def entry(m):
            m.pc.append(order.domain)
            m.pc.append(repeat.domain)
            m.pc.append(broken.domain)
            o = m.concretize(order.sym())
            n = m.concretize(repeat.sym())
            bk = m.concretize(broken.sym()) != 'complete'
            if bk and o != order.options[0]:
                raise Infeasible()          # the failing file set is explored for one registration order
            ftr = H.make_files(m, files3_broken if bk else files3, 'a.xsd', order=list(o))
            outs = []
            for i in range(n):
                r = H.read_xml(m, ftr)
                if r.variant != 0:
                    outs.append(('read_err', ENUMS.get('WriterError', ['?'] * 64)[r.fields[0].variant] if isinstance(r.fields[0], Adt) else 'error'))
                    continue
                r2, sink = H.write_xml(m, r.fields[0])
                outs.append(('ok', H.rope_text(m, sink)) if r2.variant == 0 else ('write_err', None))
            return (o, n, outs, bk)
        res = explore(lambda: H.machine(ctx), entry)
        s.count(res)
        if len(res) > 1:
            s.nontrivial += 1
        first = None
        by_order = {}
        hist_bad = None
        for m, out in res:
            if out[0] != 'ok':
                s.rep.inconc('c12 history scenario: %s' % (out[1],))
                continue
            o, n, outs, bk = out[1]
            if not bk:
                by_order.setdefault(outs[0], []).append(o)
            if any(x != outs[0] for x in outs[1:]) and (hist_bad is None or (bk and not hist_bad[3])):
                hist_bad = (o, n, outs, bk)
        s.samples.append(dict(check='registration-order x call-history', paths=len(res), distinct_first_outputs=len(by_order),
                              symbolic='order of Files::new/add over all 24 permutations of 4 files (two names differ by case only); 1..3 read_xml+write_xml calls on the same FilesToRead'))
        if len(by_order) > 1:
            d = tempfile.mkdtemp(prefix='zeep-verif-c12.')
            try:
                write_files(d, files3)
                orders = [v[0] for v in by_order.values()][:2]
                outs_n = []
                for o in orders:
                    rc, out_, _ = native.run_driver(driver, d, 'a.xsd', os.path.join(d, '__o'), order=list(o))
                    outs_n.append(open(os.path.join(d, '__o.0')).read() if os.path.exists(os.path.join(d, '__o.0')) else None)
            finally:
                rmtree(d)
            s.replays += 1
            rdir = save_replay('C12', 'registration_order', dict(list(files3.items()) + [('finding.txt', 'outputs differ between registration orders %s' % (orders,))]))
            if outs_n[0] != outs_n[1]:
                s.rep.violation('c12/registration-order', 'output depends on the order in which the files are registered: %s' % (orders,), rdir)
            else:
                s.rep.inconc('ENCODING-MISMATCH registration order: native outputs agree')
        if hist_bad is not None:
            o, n, outs, bk = hist_bad
            fset = files3_broken if bk else files3
            d = tempfile.mkdtemp(prefix='zeep-verif-c12.')
            try:
                write_files(d, fset)
                rc, out_, _ = native.run_driver(driver, d, 'a.xsd', os.path.join(d, '__o'), order=list(o), repeat=n)
                nat = [open(os.path.join(d, '__o.%d' % i)).read() for i in range(n) if os.path.exists(os.path.join(d, '__o.%d' % i))]
            finally:
                rmtree(d)
            s.replays += 1
            rdir = save_replay('C12', 'call_history', dict(list(fset.items()) + [
                ('finding.txt', 'call %d on the same FilesToRead gives a different result than call 1 (order %s, file set %s)\nnative driver: %s' % (n, o, 'with an import of an unregistered file' if bk else 'complete', out_)),
                ('replay.sh', '%s gen . a.xsd out --repeat %d\n' % (driver, n))]))
            # per-call outcome lines of the native driver, run index and write counts removed
            lines = [re.sub(r'^RUN \d+: ', '', l) for l in out_.split('\n') if l.startswith('RUN ')]
            kinds = [l.split(' ')[0] for l in lines]
            if len(set(nat)) > 1 or len(set(kinds)) > 1 or (not bk and ('ERR' in out_ or 'PANIC' in out_)):
                s.rep.violation('c12/call-history' + ('/after-a-failed-call' if bk else ''), 'repeating read_xml on the same FilesToRead changes the result (call %d differs from call 1: %s)' % (n, kinds), rdir)
            else:
                s.rep.inconc('ENCODING-MISMATCH call history: native outputs agree: %s' % out_)
    return run_e2('C12', tier, body, bounds='(i) all iteration orders of the first 4 HashMaps / HashSets with 2..3 entries iterated per run on a generated 2-operation (thorough: 3) WSDL with a two-part message and '
                  'the all-emitters WSDL; (ii) all 24 registration orders of a 3-file import chain plus an unrelated file whose name differs from another by case only x (iii) call histories of length 1..3 on the same FilesToRead, also for a file set whose generation fails (import of an unregistered file). '
                  'Outside: maps with more entries, directory enumeration order of the CLI (covered by (ii) through Files::add order).',
                  extra_assumptions=['HashMap contract: iteration order is arbitrary but fixed while the map is not modified; each map gets its own order',
                                     'replay of hash-seed findings is statistical: fresh native processes until two outputs differ (<= 48 runs)'])


# ================================================================================================ C08

def ns_prefix_map(items):
    """prefix -> set of URIs, from every struct-level `namespaces = {...}` of the output"""
    out = {}
    for it in items:
        if it.kind == 'struct' and it.attrs is not None:
            ns = RO.one(O.attr_get(it.attrs, 'namespaces'))
            if isinstance(ns, tuple):
                for p, u in ns:
                    out.setdefault(p, set()).add(u)
    return out


def inherited_fields(env, info, fn, ct, mp):
    """expected field list of a complex type including everything inherited (reference semantics of xs:extension)"""
    base = info.bases[(fn, ct.name)] if (fn, ct.name) in info.bases else info.bases.get(ct.name)
    bf = []
    if base is not None:
        bfn, bct = base
        bf = inherited_fields(env, info, bfn, bct, mp)
    sch = info.schemas[fn]
    own = O.expected_fields(env, sch, ct, mp)
    for f in own:
        f['decl_ns'] = sch.tns
    return bf + own


def extension_oracle(env, items, info, m):
    mp, mod_of_uri = mod_map(items, info, env)
    out = []
    pm = ns_prefix_map(items)
    for fn, ct in info.subjects:
        out += O.check_struct_members(env, items, info.schemas[fn], ct, ct.name, mp, module=mod_of_uri.get(info.schemas[fn].tns))
    for fn, ct, base in info.derived:
        sch = info.schemas[fn]
        bf = inherited_fields(env, info, base[0], base[1], mp)
        checks = O.check_struct_members(env, items, sch, ct, ct.name, mp, base_fields=bf, tag=' (derived)', module=mod_of_uri.get(sch.tns))
        for c in checks:
            c.key = 'derived-' + c.key
        out += checks
        # members keep the namespace of the schema that declared them
        name = pascal(ct.name)
        cands = O.find_structs(items, name, env.allowed, mod_of_uri.get(sch.tns))
        if len(cands) == 1:
            st = cands[0]
            exp = getattr(st, 'expected', [])
            own_fields = O.expected_fields(env, sch, ct, mp)
            for f in own_fields:
                f['decl_ns'] = sch.tns
            full = bf + own_fields
            for i, (fa, fd) in enumerate(st.fields[:len(full)]):
                e = full[i]
                if e.get('attr'):
                    continue
                pfx = RO.one(O.attr_get(fa, 'prefix'))
                uris = pm.get(pfx, set())
                ok = e.get('decl_ns') in uris if pfx is not None else False
                out.append(O.Check('derived-member-namespace', '%s field #%d (%s): prefix %r must be bound to the declaring namespace %s (bound to %s)' % (
                    ct.name, i, RO.one(e['rename']), pfx, e.get('decl_ns'), sorted(uris)), ok))
    return out


def c08(tier):
    def body(s):
        s.functions.update(n for n in s.ctx.bodies if re.search(r'read_complex_content_node|import_extension_fields|import_sequence|find_node_by_xml_name|try_to_find_node', n))
        fams = [F.x_chain(tier), F.x_chain(tier, decoy=True), F.x_chain(tier, decoy='global'), F.x_cross(tier), F.x_cross3(tier), F.x_diamond(tier), F.x_samename(tier)] + F.x_particles(tier)
        for sc, info in fams:
            scenario_check(s, sc, info, extension_oracle, classify=lambda c, p, i: (c.cls(p) if c.cls else ''))
    return run_e2('C08', tier, body, bounds='extension chains of depth 1..2 plus an empty extension, fan-out 2, in one file with %s declaration orders, with and without a decoy type '
                  'whose local element/attribute names equal the base type names, and with global elements named like the base types (declared before and after them); base in another namespace and file with both declaration orders; a chain across three files; a diamond (two files importing and extending the same third file, both import orders); types with the same local name in two namespaces (derived type named like its foreign base; own base declared later while an imported type has its name). Own content: '
                  'sequence, sequence+choice, attributes inside xs:extension, attributes on the base; own content = choice / all / sequence directly under xs:extension followed by own attributes. Outside: depth > 2, complexContent/restriction.' % ('all 24' if tier == 'thorough' else '6'))


def references_resolve(items):
    """every `module::Type` a field mentions names a declared module and a struct / alias defined in it"""
    out = []
    mods = {RO.one(it.name) for it in items if it.kind == 'mod'}
    defs = set()
    for it in items:
        if it.kind == 'struct':
            defs.add((RO.one(it.module), RO.one(it.name)))
        elif it.kind == 'alias':
            mm = re.match(r'\s*pub type (\w+) =', RO.one(it.text))
            if mm:
                defs.add((RO.one(it.module), mm.group(1)))
    for it in items:
        if it.kind != 'struct':
            continue
        for fa, fd in it.fields:
            t = RO.one(fd)[1]
            inner = re.sub(r'^(?:Option|Vec)<(.*)>$', r'\1', t)
            mm = re.match(r'(\w+)::(\w+)$', inner)
            if mm and mm.group(1) not in ('reqwest', 'std', 'error', 'restrictions', 'multi_ref'):
                ok = mm.group(1) in mods and (mm.group(1), mm.group(2)) in defs
                elsewhere = any(d[1] == mm.group(2) for d in defs)
                kind = ('module-undeclared' if mm.group(1) not in mods else 'type-not-in-module') + ('/type-defined-in-another-module' if elsewhere else '/type-undefined')
                out.append(O.Check('reference-resolves', '%s.%s: type %s must name a declared module and a type defined in it' % (RO.one(it.name), RO.one(fd)[0], t), ok,
                                   cls=lambda p, kind=kind: kind))
    return out


# ================================================================================================ C09

def struct_by_member(items, member_rename, name=None):
    """module of the struct that has a field renamed `member_rename` (used to identify which Thing is which)"""
    for it in items:
        if it.kind == 'struct' and (name is None or RO.one(it.name) == name):
            for fa, fd in it.fields:
                if RO.one(O.attr_get(fa, 'rename')) == member_rename:
                    return it
    return None


def qname_oracle(env, items, info, m):
    out = []
    if hasattr(info, 'things'):
        # which module holds which Thing: identified by its distinguishing member
        s1 = struct_by_member(items, 'x1', 'Thing')
        s2 = struct_by_member(items, 'x2', 'Thing')
        out.append(O.Check('both-components-emitted', 'both namespaces\' Thing are emitted as separate structs', s1 is not None and s2 is not None and s1 is not s2))
        if s1 is None or s2 is None:
            return out
        modof = {'t': RO.one(s1.module), 'm': RO.one(s2.module)}
        out.append(O.Check('modules-distinct', 'the two namespaces live in different modules', modof['t'] != modof['m']))
        users = O.find_structs(items, 'User', env.allowed)
        out.append(O.Check('struct-exactly-once', 'User emitted once', len(users) == 1))
        if len(users) == 1 and users[0].fields:
            ftype = smap(lambda t: t[1], users[0].fields[0][1])
            exp = env.map(lambda q: '%s::Thing' % modof[q.split(':')[0]], info.tref)
            out.append(O.Check('type-ref-namespace', 'User.thing must name the Thing of the namespace bound to the prefix used in type=', RO.sym_eq(ftype, exp, env.allowed)))
        ders = O.find_structs(items, 'Special', env.allowed)
        out.append(O.Check('struct-exactly-once', 'Special emitted once', len(ders) == 1))
        if len(ders) == 1:
            names = tuple(RO.one(O.attr_get(fa, 'rename')) for fa, fd in ders[0].fields)
            exp = env.map(lambda q: ('x1', 'extra') if q.startswith('t:') else ('x2', 'y2', 'extra'), info.bref)
            out.append(O.Check('base-ref-namespace', 'Special must inherit the members of the Thing of the namespace bound to the prefix used in base=', RO.sym_eq(names, exp, env.allowed)))
        return out
    if getattr(info, 'three', False):
        mods = {}
        for pfx, mem in (('a', 'a_only'), ('b', 'b_only'), ('c', 'c_only')):
            st = struct_by_member(items, mem, 'Base')
            out.append(O.Check('both-components-emitted', 'Base of namespace %s is emitted' % pfx, st is not None))
            mods[pfx] = RO.one(st.module) if st is not None else None
        ders = O.find_structs(items, 'Derived', env.allowed)
        out.append(O.Check('struct-exactly-once', 'Derived emitted once (found %d)' % len(ders), len(ders) == 1))
        if len(ders) == 1:
            names = tuple(RO.one(O.attr_get(fa, 'rename')) for fa, fd in ders[0].fields)
            exp = env.map(lambda q: (q[0] + '_only', 'own'), info.bref)
            out.append(O.Check('base-ref-namespace', 'Derived must inherit the members of the Base of the namespace its base= prefix denotes; got %s' % (names,), RO.sym_eq(names, exp, env.allowed)))
        us = O.find_structs(items, 'User', env.allowed)
        if len(us) == 1 and us[0].fields:
            ftype = smap(lambda t: t[1], us[0].fields[0][1])
            exp = env.map(lambda q: '%s::Base' % mods[q[0]], info.bref)
            out.append(O.Check('type-ref-namespace', 'User.u must name the Base of the namespace its type= prefix denotes', RO.sym_eq(ftype, exp, env.allowed)))
        return out + references_resolve(items)
    if getattr(info, 'nested', False):
        ia = struct_by_member(items, 'ia', 'Item')
        ib = struct_by_member(items, 'ib', 'Item')
        out.append(O.Check('both-components-emitted', 'both Items are emitted', ia is not None and ib is not None))
        ords = O.find_structs(items, 'Order', env.allowed)
        out.append(O.Check('struct-exactly-once', 'Order emitted once (found %d)' % len(ords), len(ords) == 1))
        if ia is not None and ib is not None and len(ords) == 1:
            ft = {RO.one(fd)[0]: RO.one(fd)[1] for fa, fd in ords[0].fields}
            out.append(O.Check('nested-prefix-own-namespace', 'Order.own (tns:Item, tns bound on the complexType) must be %s::Item, is %s' % (RO.one(ia.module), ft.get('own')), ft.get('own') == '%s::Item' % RO.one(ia.module)))
            out.append(O.Check('nested-prefix-other-namespace', 'Order.other (b:Item) must be %s::Item, is %s' % (RO.one(ib.module), ft.get('other')), ft.get('other') == '%s::Item' % RO.one(ib.module)))
            out.append(O.Check('nested-prefix-ref', 'Order.note (ref tns:Note) must be %s::Note, is %s' % (RO.one(ia.module), ft.get('note')), ft.get('note') == '%s::Note' % RO.one(ia.module)))
        return out + references_resolve(items)
    if getattr(info, 'kinds', False):
        ders = O.find_structs(items, 'Derived', env.allowed)
        out.append(O.Check('struct-exactly-once', 'Derived emitted once (found %d)' % len(ders), len(ders) == 1, cls=lambda p: 'Derived'))
        if len(ders) == 1:
            names = tuple(RO.one(O.attr_get(fa, 'rename')) for fa, fd in ders[0].fields)
            out.append(O.Check('base-is-the-type-not-the-element', 'Derived extends the complexType Thing (members from_type, rev), not the element Thing; its members are %s' % (names,),
                               names == ('from_type', 'rev', 'own')))
        return out
    if getattr(info, 'rebound', False):
        ia = struct_by_member(items, 'ia', 'Item')
        ib = struct_by_member(items, 'ib', 'Item')
        out.append(O.Check('both-components-emitted', 'both Items are emitted', ia is not None and ib is not None))
        pl = O.find_structs(items, 'Plain', env.allowed)
        scd = O.find_structs(items, 'Scoped', env.allowed)
        if ia is not None and ib is not None and len(pl) == 1 and len(scd) == 1:
            t1 = RO.one(pl[0].fields[0][1])[1] if pl[0].fields else None
            t2 = RO.one(scd[0].fields[0][1])[1] if scd[0].fields else None
            out.append(O.Check('root-prefix', 'Plain.mine (p:Item, p bound to the target namespace on the root) must be %s::Item, is %s' % (RO.one(ia.module), t1), t1 == '%s::Item' % RO.one(ia.module)))
            out.append(O.Check('prefix-rebound-on-nested-element', 'Scoped.theirs (p:Item, p bound again on the complexType to the imported namespace) must be %s::Item, is %s' % (RO.one(ib.module), t2),
                               t2 == '%s::Item' % RO.one(ib.module)))
        return out + references_resolve(items)
    if getattr(info, 'default', False):
        a1 = struct_by_member(items, 'host', 'Address')
        a2 = struct_by_member(items, 'street', 'Address')
        out.append(O.Check('both-components-emitted', 'both namespaces\' Address are emitted', a1 is not None and a2 is not None))
        if a1 is None or a2 is None:
            return out
        ders = O.find_structs(items, 'WeightedAddress', env.allowed)
        out.append(O.Check('struct-exactly-once', 'WeightedAddress emitted once', len(ders) == 1))
        if len(ders) == 1:
            names = tuple(RO.one(O.attr_get(fa, 'rename')) for fa, fd in ders[0].fields)
            out.append(O.Check('unprefixed-base-own-namespace', 'an unprefixed base="Address" (default xmlns = target namespace) must inherit the importer\'s own Address (host, port), not the imported namespace\'s; got %s' % (names,),
                               names == ('host', 'port', 'weight')))
        eps = O.find_structs(items, 'Endpoint', env.allowed)
        out.append(O.Check('struct-exactly-once', 'Endpoint emitted once', len(eps) == 1))
        return out
    # rebind
    prob = {}
    for ns, (owner, member) in info.probes.items():
        st = struct_by_member(items, member, owner if owner != 'Top' and owner != 'Holder' else None)
        prob[ns] = RO.one(st.module) if st is not None else None
    for owner, field, ns in info.expect:
        sts = O.find_structs(items, owner, env.allowed)
        out.append(O.Check('struct-exactly-once', '%s emitted once' % owner, len(sts) == 1))
        if len(sts) == 1:
            f = [fd for fa, fd in sts[0].fields if RO.one(O.attr_get(fa, 'rename')) == field]
            if f:
                ftype = RO.one(f[0])[1]
                out.append(O.Check('prefix-scope', '%s.%s: prefix t is bound to %s in the declaring file, so the type must be %s::Inner (is %s)' % (owner, field, ns, prob[ns], ftype),
                                   ftype == '%s::Inner' % prob[ns]))
    return out


def c09(tier):
    def body(s):
        s.functions.update(n for n in s.ctx.bodies if re.search(r'find_node_by_xml_name|try_to_find_node|resolve_type|split_type|as_rust_type|add_namespace_reference|collect_namespaces', n))
        for sc, info in [F.q_types(tier), F.q_rebind(tier), F.q_default(tier), F.q_three(tier), F.q_nested(tier), F.q_rebound(tier), F.q_kinds(tier)]:
            scenario_check(s, sc, info, qname_oracle, classify=lambda c, p, i: ','.join('%s=%s' % (k, v) for k, v in sorted(p.items()) if k != 'order'))
    return run_e2('C09', tier, body, bounds='two namespaces in two files defining complexTypes with the same local name; type= and base= references whose prefix is symbolic; '
                  'declaration order symbolic (3 or all 6 orders); one prefix bound to different namespaces in different files; the only prefix of the target namespace bound on a nested element; a root prefix bound again on a nested element; a global element with an anonymous type and a complexType of the same name as an extension base (all 6 declaration orders). Outside: element ref= / message part collisions '
                  '(exercised by C05), kinds other than complexType.')


# ================================================================================================ C10

def uri_class(u1, u2):
    def last(u):
        return [x for x in u.rstrip('/').split('/') if x][-1] if '/' in u else u.split(':')[-1]
    if u1 == u2:
        return 'same-uri'
    if last(u1) == last(u2):
        return 'same-last-segment'
    if last(u1)[:3].lower() == last(u2)[:3].lower():
        return 'same-first-three-letters'
    return 'other'


def namespace_oracle(env, items, info, m):
    out = []
    # on every path the URIs that reach the output have been concretised by the reader (abbreviation forks on them)
    pairs = []       # (prefix, uri, where)
    mods = {}        # module -> set of own-namespace URIs of its structs
    for it in items:
        if it.kind != 'struct' or it.attrs is None:
            continue
        ns = RO.one(O.attr_get(it.attrs, 'namespaces'))
        own = RO.one(O.attr_get(it.attrs, 'prefix'))
        if isinstance(ns, tuple):
            for p, u in ns:
                pairs.append((p, u, RO.one(it.name)))
                if p == own:
                    mods.setdefault(RO.one(it.module), set()).add(u)
    by_prefix = {}
    by_uri = {}
    where = {}
    file_of = getattr(info, 'file_of', {'InA': 'a.xsd', 'InB': 'b.xsd'})
    for p, u, w in pairs:
        by_prefix.setdefault(p, set()).add(u)
        by_uri.setdefault(u, set()).add(p)
        where.setdefault(u, set()).add(file_of.get(w, w))

    def origin(us):
        """were the colliding abbreviations assigned while reading different files (documents abbreviate independently)?"""
        fs = [where.get(u, set()) for u in us[:2]]
        return 'assigned-in-different-files' if len(fs) == 2 and fs[0] and fs[1] and not (fs[0] & fs[1]) else 'assigned-in-one-file'
    for p, us in sorted(by_prefix.items()):
        us = sorted(us)
        out.append(O.Check('prefix-injective', 'prefix %r is declared for %d namespaces: %s' % (p, len(us), us), len(us) == 1,
                           cls=(lambda params, us=us: origin(us)) if len(us) > 1 else None))
    for u, ps in sorted(by_uri.items()):
        out.append(O.Check('uri-one-prefix', 'namespace %s gets %d prefixes: %s' % (u, len(ps), sorted(ps)), len(ps) == 1))
    for mod, us in sorted(mods.items(), key=lambda kv: str(kv[0])):
        us = sorted(us)
        out.append(O.Check('module-injective', 'module %s holds components of %d namespaces: %s' % (mod, len(us), us), len(us) == 1,
                           cls=(lambda params, us=us: origin(us)) if len(us) > 1 else None))
    mod_of_uri = {}
    for mod, us in mods.items():
        for u in us:
            mod_of_uri.setdefault(u, set()).add(mod)
    for u, ms in sorted(mod_of_uri.items()):
        out.append(O.Check('uri-one-module', 'namespace %s is spread over %d modules: %s' % (u, len(ms), sorted(map(str, ms))), len(ms) == 1))
    # every module header appears once
    names = [RO.one(it.name) for it in items if it.kind == 'mod']
    out.append(O.Check('module-declared-once', 'a module is declared twice: %s' % sorted(n for n in set(names) if names.count(n) > 1), len(names) == len(set(names)),
                       cls=lambda params: 'assigned-in-different-files'))
    # both components exist, each inside the module of its own namespace
    for nm in getattr(info, 'expect_structs', (('InA',) if getattr(info, 'single', False) else ('InA', 'InB'))):
        sts = O.find_structs(items, nm, env.allowed)
        out.append(O.Check('struct-exactly-once', '%s emitted once (found %d)' % (nm, len(sts)), len(sts) == 1))
    # field prefixes are declared somewhere with a URI
    for it in items:
        if it.kind == 'struct':
            for fa, fd in it.fields:
                p = RO.one(O.attr_get(fa, 'prefix'))
                if p is not None and p != 'soapenv':
                    out.append(O.Check('field-prefix-declared', '%s.%s uses prefix %r which no namespaces map declares' % (RO.one(it.name), RO.one(fd)[0], p), p in by_prefix))
    if getattr(info, 'shared', None):
        cs = O.find_structs(items, 'CustomerType', env.allowed)
        os_ = O.find_structs(items, 'OrderType', env.allowed)
        if len(cs) == 1 and len(os_) == 1:
            out.append(O.Check('shared-namespace-one-module', 'CustomerType (module %s) and OrderType (module %s) share a target namespace and belong in its single module' % (RO.one(cs[0].module), RO.one(os_[0].module)),
                               RO.one(cs[0].module) == RO.one(os_[0].module) and RO.one(cs[0].module) is not None))
    return out + references_resolve(items)


def c10(tier):
    def body(s):
        s.functions.update(n for n in s.ctx.bodies if re.search(r'add_namespace_reference|switch_to_target_namespace|make_abbreviated_namespace|::extend|extend_no_duplicates|collect_namespaces|create_mod_name', n))
        xr_sc, xr_info = F.s_xref(tier)
        xr_info.file_of = {'Person': 'a.xsd', 'Remote': 'b.xsd'}
        xr_info.expect_structs = ('Person', 'Remote')
        shared = F.n_shared(tier)
        for sc_, info_ in shared:
            info_.file_of = {'CustomerType': 'customer.xsd', 'OrderType': 'order.xsd', 'Basket': 'main.xsd'}
            info_.expect_structs = ('CustomerType', 'OrderType', 'Basket')
        # the target namespace has no prefix on the schema root; one is bound on a nested element (next to an imported namespace)
        qn_sc, qn_info = F.q_nested(tier)
        qn_info.file_of = {'Order': 'a.xsd', 'Note': 'a.xsd'}
        qn_info.expect_structs = ('Order', 'Note')
        for sc, info in [F.n_namespaces(tier), F.n_within(tier), (xr_sc, xr_info), (qn_sc, qn_info)] + shared:
            scenario_check(s, sc, info, namespace_oracle, classify=lambda c, p, i: (c.cls(p) if c.cls else ''))
    return run_e2('C10', tier, body, bounds='four namespace URIs (target of the start file, referenced-only root xmlns, target of an imported file, nested xmlns in the imported file), each symbolic over '
                  '%d adversarial URIs (equal last segments, also in different letter case, equal three-letter abbreviations, dots, dashes, trailing slash, URN, equal URIs); a target namespace whose only prefix is bound on a nested element. Outside: more than 4 namespaces, the 255-collision abort (C13).' % (12 if tier == 'thorough' else 5))


# ================================================================================================ C03 (annotation level)

def annotation_oracle(env, items, info, m):
    mp, _ = mod_map(items, info, env)
    out = []
    targets = [(fn, ct, None) for fn, ct in info.subjects] + [(fn, ct, base) for fn, ct, base in getattr(info, 'derived', [])]
    for fn, ct, base in targets:
        sch = info.schemas[fn]
        name = pascal(ct.name)
        cands = O.find_structs(items, name, env.allowed)
        want_mod = mod_map(items, info, env)[1].get(sch.tns) if isinstance(sch.tns, str) else None
        if len(cands) > 1 and want_mod is not None:
            cands = [c_ for c_ in cands if RO.one(c_.module) == want_mod]
        if len(cands) != 1:
            out.append(O.Check('struct-exactly-once', '%s emitted once (found %d)' % (ct.name, len(cands)), False))
            continue
        st = cands[0]
        bf = inherited_fields(env, info, base[0], base[1], mp) if base is not None else []
        own = O.expected_fields(env, sch, ct, mp)
        for f in own:
            f['decl_ns'] = sch.tns
        exp = bf + own
        nsmap = O.attr_get(st.attrs, 'namespaces')
        sp = O.attr_get(st.attrs, 'prefix')
        tns = env.v(sch.tns)

        def bound(nm, p):
            if not isinstance(nm, tuple) or p is None:
                return None
            return dict(nm).get(p)
        out.append(O.Check('struct-rename', '%s: struct rename = local name' % ct.name, RO.sym_eq(O.attr_get(st.attrs, 'rename'), env.v(ct.name), env.allowed)))
        out.append(O.Check('struct-namespace', '%s: struct prefix must be bound to the component\'s own namespace in its namespaces map' % ct.name,
                           RO.sym_eq(smap(bound, nsmap, sp, allowed=env.allowed), tns, env.allowed)))
        for i, (fa, fd) in enumerate(st.fields[:len(exp)]):
            e = exp[i]
            if e.get('any'):
                continue
            p = O.attr_get(fa, 'prefix')
            what = '%s field #%d (%s)' % (ct.name, i, RO.one(e['rename']))
            out.append(O.Check('member-rename', what + ': rename = declared XML name (is %r)' % (RO.one(O.attr_get(fa, 'rename')),), RO.sym_eq(O.attr_get(fa, 'rename'), e['rename'], env.allowed)))
            if e['attr']:
                out.append(O.Check('attribute-unqualified', what + ': an attribute member must be unqualified (no prefix); has prefix %r' % (RO.one(p),),
                                   RO.sym_eq(p, None, env.allowed)))
                continue
            # the namespace the member's element belongs to: the referenced element's for ref=, else the declaring schema's
            if e.get('decl_prefix') is not None:
                dns = smap(lambda q: sch.prefixes.get(q), e['decl_prefix'], allowed=env.allowed)
                dns = smap(lambda u: u, env.v(dns) if not isinstance(dns, SymVal) else dns, allowed=env.allowed)
                if isinstance(dns, Selector):
                    dns = env.v(dns)
            else:
                dns = env.v(e.get('decl_ns'))
            got = smap(bound, nsmap, p, allowed=env.allowed)
            out.append(O.Check('member-namespace-bound', what + ': field prefix must be bound, in the namespaces map of the containing struct, to the namespace that declares the element',
                               RO.sym_eq(got, dns, env.allowed),
                               cls=lambda params, e=e: 'ref-or-inherited-from-other-namespace' if (e.get('decl_prefix') is not None or e.get('decl_ns') != sch.tns) else 'own-namespace'))
    return out


def c03(tier):
    def body(s):
        s.functions.update(n for n in s.ctx.bodies if re.search(r'field::<impl.*write_xml|write_complex_type|write_type_alias|Field.*try_from_node|switch_to_target_namespace|import_extension', n))
        fams = [F.s_seq(tier)[1], F.s_xns(tier), F.s_ref_anon_fwd(tier), F.x_cross(tier), F.x_chain(tier), F.s_xref(tier), F.s_xref(tier, pfx='xmlext'), F.x_cross3(tier), F.q_default(tier)]
        for sc, info in fams:
            if not hasattr(info, 'bases'):
                info.bases = {}
            scenario_check(s, sc, info, annotation_oracle, classify=lambda c, p, i: (c.cls(p) if c.cls else ''))
    return run_e2('C03', tier, body, level='other',
                  bounds='families S-seq-attr, S-xns, S-ref-anon-fwd, X-cross, X-chain, S-xref (ref= to an element of another namespace, both URIs symbolic over adversarial URIs). '
                         'Claimed at annotation level only.',
                  explanation='Serialization is executed by yaserde derive expansion and xml-rs at run time, which neither engine can execute. zeep influences the wire format only through '
                              'the yaserde attributes it emits, so what is decided (symbolically, per path, by z3) is the generator-side obligation set: rename = declared local name; '
                              'element members carry a prefix bound IN THE CONTAINING STRUCT\'S namespaces map to the namespace declaring the element; attribute members carry '
                              'attribute = true and no prefix; field order = declaration order (C02 oracle); struct-level prefix/rename/namespaces name the component. Lexical forms, '
                              'escaping and occurrence on the wire are outside the claim.',
                  extra_assumptions=['yaserde 0.12 semantics of prefix / namespaces / rename / attribute are trusted as documented'])


# ================================================================================================ C05

FN_RE = re.compile(r'\s*pub async fn ((?:r#)?\w+)\((&self, )?req: ([\w:]+)(?:, credentials: [^)]*)?\) -> error::SoapResult<(.*)> \{\s*$')


def parse_fn(sig):
    m = FN_RE.match(sig)
    if not m:
        return ('?', False, sig.strip(), '')
    return (m.group(1), bool(m.group(2)), m.group(3), m.group(4))


def wsdl_oracle(env, items, info, m, lines=None):
    out = []
    structs = [it for it in items if it.kind == 'struct']
    fns = [smap(parse_fn, it.sig) for it in items if it.kind == 'async_fn']

    def struct_named(n):
        return O.find_structs(items, n, env.allowed)

    def field(st, fname):
        for fa, fd in st.fields:
            if RO.one(fd)[0] == fname:
                return fa, fd
        return None

    svc = env.v(info.svc)
    svcs = struct_named(svc)
    out.append(O.Check('service-struct', 'a client struct named after the WSDL service (found %d)' % len(svcs), len(svcs) == 1))
    methods = [f for f in fns if RO.one(f)[1]]
    out.append(O.Check('method-count', 'exactly one client method per operation (%d methods, %d operations)' % (len(methods), len(info.ops)), len(methods) == len(info.ops)))
    for op in info.ops:
        opname = env.v(op['name'])
        want_fn = env.map(O.field_ident if False else (lambda s_: F.snake(s_)), op['name'])
        cand = []
        for f in methods:
            eq = RO.sym_eq(smap(lambda t: t[0], f), want_fn, env.allowed)
            if eq is True or (isinstance(eq, SymVal) and any(eq.values())):
                cand.append((f, eq))
        tag = RO.one(opname)
        out.append(O.Check('method-snake-case', 'operation %s: one method named in snake_case (candidates %d; methods are %s)' % (tag, len(cand), [RO.one(f)[0] for f in methods]),
                           len(cand) == 1 and (cand[0][1] is True or cand[0][1]) if len(cand) == 1 else False))
        if len(cand) != 1:
            continue
        f = cand[0][0]
        req_t = smap(lambda t: t[2], f)
        res_t = smap(lambda t: t[3], f)
        envs = struct_named(req_t)
        out.append(O.Check('request-envelope-defined', 'operation %s: the method takes %s, which must be a struct defined in the output (found %d)' % (tag, RO.one(req_t), len(envs)),
                           len(envs) == 1 and RO.sym_eq(envs[0].name, req_t, env.allowed) if len(envs) == 1 else False))
        if len(envs) == 1:
            out += envelope_checks(env, items, info, op, envs[0], tag, 'input', struct_named, field)
        # output
        has_out = env.v(op['has_output'])
        out_ok = smap(lambda h, r: (r != '()') == bool(h), has_out, res_t, allowed=env.allowed)
        out.append(O.Check('response-envelope-iff-output', 'operation %s: the method returns a response envelope iff the operation has an output' % tag, out_ok))
        r1 = RO.one(res_t)
        if r1 != '()':
            oenvs = struct_named(res_t)
            out.append(O.Check('response-envelope-defined', 'operation %s: the method returns %s, which must be a struct defined in the output (found %d)' % (tag, r1, len(oenvs)),
                               len(oenvs) == 1 and RO.sym_eq(oenvs[0].name, res_t, env.allowed) if len(oenvs) == 1 else False))
            if len(oenvs) == 1:
                out += envelope_checks(env, items, info, dict(op, body_el=op['out_el'], headers=op.get('out_headers', [])), oenvs[0], tag, 'output', struct_named, field)
    # the address
    if lines is not None:
        locs = [l for l in lines if isinstance(RO.one(l), str) and re.match(r'\s*location: "', RO.one(l))]
        ok = len(locs) == 1 and RO.sym_eq(smap(lambda l: re.match(r'\s*location: "(.*)"\.to_string\(\),\s*$', l).group(1) if re.match(r'\s*location: "(.*)"\.to_string\(\),\s*$', l) else None, locs[0]),
                                          env.map(native.url_parse, getattr(info, 'location', info.wsdl.location)), env.allowed) if len(locs) == 1 else False
        out.append(O.Check('service-address', 'the client posts to the address of the WSDL port', ok))
    return out


def envelope_checks(env, items, info, op, envst, tag, direction, struct_named, field):
    out = []
    b = field(envst, 'body')
    out.append(O.Check('envelope-has-body', '%s %s envelope has a body member' % (tag, direction), b is not None))
    if b is None:
        return out
    ba, bd = b
    out.append(O.Check('envelope-body-is-soap-body', '%s %s envelope: body member is soapenv:Body' % (tag, direction),
                       RO.sym_eq(O.attr_get(ba, 'rename'), 'Body', env.allowed)))
    bstructs = struct_named(smap(lambda t: t[1], bd))
    out.append(O.Check('body-struct-defined', '%s %s: body type %s defined once (found %d)' % (tag, direction, RO.one(bd)[1], len(bstructs)), len(bstructs) == 1))
    if len(bstructs) == 1:
        bs = bstructs[0]
        out.append(O.Check('body-one-element', '%s %s: Body holds exactly one element (%d fields)' % (tag, direction, len(bs.fields)), len(bs.fields) == 1))
        if len(bs.fields) == 1:
            fa, fd = bs.fields[0]
            el = env.v(op['body_el'])
            out.append(O.Check('body-element-qname', '%s %s: the Body member is renamed to the element of the bound part' % (tag, direction),
                               RO.sym_eq(O.attr_get(fa, 'rename'), el, env.allowed)))
            ftype = smap(lambda t: t[1], fd)
            tname = smap(lambda t: t.split('::')[-1], ftype)
            tmod = smap(lambda t: t.split('::')[0] if '::' in t else None, ftype)
            want = env.map(pascal, op['body_el'])
            out.append(O.Check('body-element-type', '%s %s: the Body member is typed by the struct generated for that element (type %s)' % (tag, direction, RO.one(ftype)),
                               RO.sym_eq(tname, want, env.allowed)))
            defs = [it for it in struct_named(tname) if RO.one(it.module) == RO.one(tmod)]
            out.append(O.Check('body-element-type-defined', '%s %s: %s must be defined in module %s' % (tag, direction, RO.one(tname), RO.one(tmod)), len(defs) == 1))
    h = field(envst, 'header')
    want_h = len(op['headers']) > 0
    out.append(O.Check('header-iff-bound', '%s %s: a Header member exists iff header parts are bound' % (tag, direction), (h is not None) == want_h))
    if h is not None and want_h:
        hstructs = struct_named(smap(lambda t: t[1], h[1]))
        out.append(O.Check('header-struct-defined', '%s: header type defined once (found %d)' % (tag, len(hstructs)), len(hstructs) == 1))
        if len(hstructs) == 1:
            hs = hstructs[0]
            out.append(O.Check('header-member-count', '%s: one Header member per bound header part (%d fields, %d parts)' % (tag, len(hs.fields), len(op['headers'])),
                               len(hs.fields) == len(op['headers'])))
            got = sorted(RO.one(O.attr_get(fa, 'rename')) for fa, fd in hs.fields)
            out.append(O.Check('header-element-qname', '%s: every Header member is renamed to the element its part references (renames %s, elements %s)' % (tag, got, sorted(op['headers'])),
                               got == sorted(op['headers'])))
            hns = getattr(info, 'headers_ns', None)
            if hns:
                nsmap = dict(RO.one(O.attr_get(hs.attrs, 'namespaces')) or ())
                for fa, fd in hs.fields:
                    rn = RO.one(O.attr_get(fa, 'rename'))
                    pfx = RO.one(O.attr_get(fa, 'prefix'))
                    out.append(O.Check('header-element-namespace', '%s: header %s must be qualified with the namespace of its element (%s); prefix %r is bound to %s' % (tag, rn, hns.get(rn), pfx, nsmap.get(pfx)),
                                       nsmap.get(pfx) == hns.get(rn)))
            for fa, fd in hs.fields:
                t = RO.one(fd)[1]
                mm = re.match(r'Option<(?:(\w+)::)?(\w+)>$', t)
                okt = bool(mm) and mm.group(2) in [pascal(x) for x in op['headers']] and len([it for it in struct_named(mm.group(2)) if RO.one(it.module) == mm.group(1)]) == 1
                out.append(O.Check('header-element-type', '%s: Header member type %s must be Option<struct generated for the header element>' % (tag, t), okt))
    return out


def c05(tier):
    def body(s):
        s.functions.update(n for n in s.ctx.bodies if re.search(r'Soap(Binding|Service|Port|Message|Operation)|read_(soap|body|header|port)|map_to_rust_node|write_soap|write_async', n) and '::tests::' not in n)
        fams = [F.w_ops(tier, 0), F.w_ops(tier, 1), F.w_ops(tier, 2)] + F.w_hdr_xns(tier) + [F.w_out_hdr(tier)]
        for sc, info in fams:
            def oracle(env, items, info, m, _sc=sc):
                lines = getattr(env, 'lines', None)
                return wsdl_oracle(env, items, info, m, lines)
            scenario_check(s, sc, info, oracle, classify=lambda c, p, i: '')
    return run_e2('C05', tier, body, bounds='WSDL with two operations; the first with operation name over %d case styles, body element name over 3 styles, part name equal to / different from the '
                  'element name, parts= present/absent (single-part message), output present/absent, service name, 0..2 bound header parts. Identifier agreement between the method signature, '
                  'the envelope, Body and Header structs and the element structs is decided per path by z3. Outside: the serialized envelope (yaserde at run time), rpc/encoded bindings, '
                  'multi-part bodies without parts=.' % (5 if tier == 'thorough' else 4))


# ================================================================================================ C16 / C07(c): the async helper

from interp import Coro, Opaque, RString, NONE, SOME, OK, ERR, opt, It


def soap_helper_paths(ctx, wrapper=False):
    """explores the coroutine MIR of helpers::send_soap_request_using_client (or the send_soap_request wrapper) over
    event-recording stubs whose outcomes are symbolic. Returns (results, names of the symbolic outcomes)."""
    B = z3.Bool
    names = ['credentials', 'check_ok', 'ser_ok', 'send_ok', 'status_4xx_5xx', 'text_ok', 'de_ok']

    def entry(m):
        polls = {'send': 0, 'text': 0}

        def hook(mm, c0, args):
            c = c0
            if c.endswith('as CheckRestrictions>::check_restrictions'):
                mm.events.append(('check',))
                return OK(()) if mm.branch(B('check_ok')) else ERR(Adt('SoapError', ENUMS['SoapError'].index('Restriction'), [RString('facet violated')]))
            if c.startswith('yaserde::ser::to_string'):
                mm.events.append(('serialize',))
                return OK(RString('<serialized-request/>')) if mm.branch(B('ser_ok')) else ERR(RString('ser error'))
            if c.startswith('reqwest::Client::new'):
                mm.events.append(('client_new',))
                return Opaque('reqwest::Client', 'fresh')
            if c.startswith('reqwest::Client::post'):
                mm.events.append(('post', as_str(args[1])))
                return Opaque('RequestBuilder', {})
            if c.startswith('reqwest::RequestBuilder::body'):
                mm.events.append(('body', as_str(args[1])))
                return args[0]
            if c.startswith('reqwest::RequestBuilder::basic_auth'):
                mm.events.append(('basic_auth', as_str(args[1]), as_str(deref(args[2]).fields[0]) if deref(args[2]).variant == 1 else None))
                return args[0]
            if c.startswith('reqwest::RequestBuilder::try_clone'):
                return SOME(Opaque('RequestBuilder', 'clone'))     # a request with a String body can be cloned
            m_is = re.match(r'reqwest::Error::(is_\w+)$', c)
            if m_is:
                return mm.branch(B('error_%s' % m_is.group(1)))   # which kind of transport error it was is up to the environment
            if c.startswith('reqwest::RequestBuilder::send'):
                mm.events.append(('send',))
                polls['sends'] = polls.get('sends', 0) + 1
                return Opaque('Pending')
            if c.endswith('as Future>::poll') and ('Pending as Future' in c or 'Response::text' in c):
                which = 'send' if 'Pending as Future' in c else 'text'
                if polls[which] < 1 and mm.branch(B('pending_%s' % which)):
                    polls[which] += 1
                    return Adt('Poll', 1, [])
                if which == 'send':
                    nth = polls.get('sends', 1)
                    polls['send'] = 0         # a further send may be pending once, too
                    return Adt('Poll', 0, [OK(Opaque('Response')) if mm.branch(B('send_ok' if nth <= 1 else 'send_ok_%d' % nth)) else ERR(Opaque('reqwest::Error', 'transport'))])
                if not mm.branch(B('text_ok')):
                    return Adt('Poll', 0, [ERR(Opaque('reqwest::Error', 'body'))])
                # the reply body is the envelope text or blank (an acknowledgement without payload)
                polls['body'] = '  ' if mm.branch(B('body_blank')) else '<response-body/>'
                return Adt('Poll', 0, [OK(RString(polls['body']))])
            # the reply status as a number: symbolic in [100, 599], tied to the 4xx/5xx selector that error_for_status* decides on
            if c.startswith('reqwest::Response::status'):
                S = z3.Int('status_code')
                if not polls.get('status_tied'):
                    polls['status_tied'] = True
                    mm.pc.append(z3.And(S >= 100, S <= 599, (S >= 400) == B('status_4xx_5xx')))
                return Opaque('StatusCode', S)
            if isinstance(deref(args[0]) if args else None, Opaque) and deref(args[0]).kind == 'StatusCode':
                S = deref(args[0]).data
                meth = c.split('::')[-1]
                if meth in ('eq', 'ne') and len(args) == 2:
                    o = deref(args[1])
                    if isinstance(o, Opaque) and o.kind == 'StatusCode':
                        o = o.data
                    elif isinstance(o, tuple) and o[0] == 'item' and o[1].split('::')[-1] in STATUS_CONSTS:
                        o = STATUS_CONSTS[o[1].split('::')[-1]]
                    else:
                        raise Unsupported('StatusCode compared with %r' % (o,))
                    r = mm.branch(S == o)
                    return r if meth == 'eq' else not r
                if meth == 'as_u16':
                    for v in (200, 201, 204, 400, 401, 403, 404, 500, 503):
                        if mm.branch(S == v):
                            return v
                    mm.pc.append(z3.Or(S == 202, S == 502))
                    return 202 if mm.branch(S == 202) else 502
                rng = {'is_informational': (100, 199), 'is_success': (200, 299), 'is_redirection': (300, 399), 'is_client_error': (400, 499), 'is_server_error': (500, 599)}.get(meth)
                if rng:
                    return mm.branch(z3.And(S >= rng[0], S <= rng[1]))
            if c.startswith('reqwest::Response::error_for_status_ref'):
                mm.events.append(('status_check',))
                return OK(args[0]) if mm.branch(z3.Not(B('status_4xx_5xx'))) else ERR(Opaque('reqwest::Error', 'status'))
            if c.startswith('reqwest::Response::error_for_status'):
                mm.events.append(('status_check',))
                return OK(deref(args[0])) if mm.branch(z3.Not(B('status_4xx_5xx'))) else ERR(Opaque('reqwest::Error', 'status'))
            if c.startswith('reqwest::Response::text'):
                return Opaque('TextFuture')
            if re.match(r'<[A-Z]\w{0,2} as (std::default::|core::default::)?Default>::default$', c):
                return Opaque('DefaultValue')        # a value made up by the helper, not read from the reply
            if c.startswith('yaserde::de::from_str'):
                mm.events.append(('deserialize', as_str(args[0])))
                return OK(Opaque('ResponseEnvelope')) if mm.branch(B('de_ok')) else ERR(RString('de error'))
            return NotImplemented
        m.hooks.append(hook)
        creds = SOME([RString('user'), RString('secret')]) if m.branch(B('credentials')) else NONE()
        if wrapper:
            coro = m.call('send_soap_request', ['http://svc/endpoint', creds, Opaque('RequestEnvelope')])
            body = [b for n, b in m.b.items() if n == 'send_soap_request::{closure#0}' or n.endswith('::send_soap_request::{closure#0}')][0]
        else:
            coro = m.call('send_soap_request_using_client', [Ref([Opaque('reqwest::Client', 'given')], 0), 'http://svc/endpoint', creds, Opaque('RequestEnvelope')])
            body = [b for n, b in m.b.items() if n == 'send_soap_request_using_client::{closure#0}' or n.endswith('::send_soap_request_using_client::{closure#0}')][0]
        for _ in range(6):
            r = m.run(body, [[Ref([coro], 0)], Ref([Opaque('Context')], 0)])
            if r.variant == 0:
                return r.fields[0]
        return 'still pending'
    res = explore(lambda: H.machine(ctx), entry)
    return res, names


def helper_obligations(m, out, names):
    """list of (key, what) violated on this path; the path condition fixes every stub outcome that was consulted"""
    val = {}
    for c in m.pc:
        t = str(c)
        if t.startswith('Not(') and t.endswith(')'):
            val[t[4:-1]] = False
        else:
            val[t] = True
    ev = m.events
    bad = []
    if out[0] != 'ok':
        return [('helper/' + out[0], 'the helper ends in %s: %s' % (out[0], out[1]))], val
    r = out[1]
    if r == 'still pending':
        return [('helper/never-ready', 'the future is still pending after every awaited future became ready')], val
    is_ok = isinstance(r, Adt) and r.name == 'Result' and r.variant == 0
    kinds = [e[0] for e in ev if e[0] != 'client_new']     # building a reqwest::Client opens no connection
    sends = kinds.count('send')
    posts = [e for e in ev if e[0] == 'post']
    check_ok = val.get('check_ok')
    ser_ok = val.get('ser_ok')
    if not kinds or kinds[0] != 'check':
        bad.append(('helper/check-first', 'the restriction check is not the first thing the helper does: events %s' % kinds))
    if check_ok is False:
        if any(k in ('post', 'send', 'serialize', 'body') for k in kinds):
            bad.append(('helper/io-after-failed-check', 'a failed restriction check is followed by %s' % kinds))
        e = deref(r.fields[0]) if isinstance(r, Adt) and r.variant == 1 else None
        if is_ok or not (isinstance(e, Adt) and e.name == 'SoapError' and ENUMS['SoapError'][e.variant] == 'Restriction'):
            bad.append(('helper/restriction-error-returned', 'a failed restriction check must be returned as the restriction error; got %r' % (r,)))
    want_send = 1 if (check_ok and ser_ok) else 0
    if sends != want_send or len(posts) != want_send:
        bad.append(('helper/one-post-per-call', 'expected %d POST, saw post=%d send=%d (events %s)' % (want_send, len(posts), sends, kinds)))
    if want_send == 1:
        if posts and posts[0][1] != 'http://svc/endpoint':
            bad.append(('helper/post-to-service-address', 'POST goes to %r' % (posts[0][1],)))
        bodies = [e for e in ev if e[0] == 'body']
        if len(bodies) != 1 or bodies[0][1] != '<serialized-request/>':
            bad.append(('helper/body-is-serialization', 'request body is %r' % (bodies,)))
        auth = [e for e in ev if e[0] == 'basic_auth']
        if (len(auth) == 1) != bool(val.get('credentials')):
            bad.append(('helper/basic-auth-iff-credentials', 'credentials=%s but basic_auth events %s' % (val.get('credentials'), auth)))
        if auth and (auth[0][1] != 'user' or auth[0][2] != 'secret'):
            bad.append(('helper/basic-auth-values', 'basic_auth called with %r' % (auth[0],)))
        if kinds.index('send') < max([i for i, k in enumerate(kinds) if k in ('body', 'basic_auth', 'post')] + [0]):
            bad.append(('helper/send-after-build', 'send happens before the request is complete: %s' % kinds))
    all_ok = bool(check_ok) and bool(ser_ok) and bool(val.get('send_ok')) and val.get('status_4xx_5xx') is False and bool(val.get('text_ok')) and bool(val.get('de_ok'))
    if is_ok != all_ok:
        bad.append(('helper/ok-iff-every-stage-ok', 'result is %s but stage outcomes are %s' % ('Ok' if is_ok else 'Err', {k: val.get(k) for k in names})))
    if is_ok and not (isinstance(deref(r.fields[0]), Opaque) and deref(r.fields[0]).kind == 'ResponseEnvelope'):
        bad.append(('helper/value-is-deserialized-reply', 'Ok value is %r' % (r.fields[0],)))
    if val.get('send_ok') and 'status_check' not in kinds and want_send:
        bad.append(('helper/status-checked', 'the reply status is never checked: %s' % kinds))
    if 'deserialize' in kinds:
        d = [e for e in ev if e[0] == 'deserialize'][0]
        if d[1] not in ('<response-body/>', '  ') or (d[1] == '  ') != bool(val.get('body_blank')):
            bad.append(('helper/deserializes-reply-body', 'from_str is given %r' % (d[1],)))
        if val.get('status_4xx_5xx') is True:
            bad.append(('helper/no-parse-of-failed-exchange', 'a 4xx/5xx reply is parsed: %s' % kinds))
    return bad, val


def helper_check(s, prop, keys_filter=None):
    ctx = s.ctx
    total = 0
    for wrapper in (False, True):
        s.scenarios += 1
        res, names = soap_helper_paths(ctx, wrapper)
        s.count(res)
        if len(res) > 1:
            s.nontrivial += 1
        nviol = 0
        for m, out in res:
            bad, val = helper_obligations(m, out, names)
            for key, what in bad:
                if keys_filter and not keys_filter(key):
                    continue
                nviol += 1
                key2 = key + ('/wrapper' if wrapper else '')
                rdir = save_replay(prop, re.sub(r'\W+', '_', key2), {'finding.txt': '%s\n%s\nstub outcomes: %s\nevents: %s\n' % (key2, what, val, m.events)})
                # the stubs stand for reqwest/yaserde: there is no native replay of a stub scenario; the obligation is read off the path
                s.rep.violation(key2, what + ' [stub outcomes %s]' % ({k: v for k, v in val.items()},), rdir)
        s.samples.append(dict(function='send_soap_request' if wrapper else 'send_soap_request_using_client', paths=len(res), violations=nviol,
                              symbolic='credentials present; result of check_restrictions, to_string, send, status class, text, from_str; 0..1 Pending polls of send and text',
                              example_events=[list(map(str, res[0][0].events))] if res else []))
        total += len(res)
    return total


def emitted_method_bodies_oracle(env, items, info, m):
    """generated client methods hand the client, the address, the credentials and the request to the helper"""
    out = []
    lines = env.lines
    texts = [RO.one(l) for l in lines]
    for i, t in enumerate(texts):
        if isinstance(t, str) and re.match(r'\s*pub async fn \S+\(&self, req: ', t):
            bodytxt = ' '.join(x.strip() for x in texts[i + 1:i + 4] if isinstance(x, str))
            ok = ('helpers::send_soap_request_using_client(&self.client, &self.location, credentials, req).await' in bodytxt
                  and 'let credentials = self.credentials.as_ref().map(|(u, p)| (u.as_str(), p.as_str()));' in bodytxt)
            out.append(O.Check('method-forwards-client-location-credentials-request', 'client method body: %s' % bodytxt[:160], ok))
    n = len(out)
    out.append(O.Check('methods-found', 'client methods found in the output (%d)' % n, n >= 1))
    return out


STATUS_CONSTS = {'OK': 200, 'CREATED': 201, 'ACCEPTED': 202, 'NO_CONTENT': 204, 'BAD_REQUEST': 400, 'UNAUTHORIZED': 401, 'FORBIDDEN': 403, 'NOT_FOUND': 404,
                 'INTERNAL_SERVER_ERROR': 500, 'BAD_GATEWAY': 502, 'SERVICE_UNAVAILABLE': 503, 'GATEWAY_TIMEOUT': 504}


def c16(tier):
    def body(s):
        s.functions.update(n for n in s.ctx.bodies if 'send_soap_request' in n or 'write_async_soap_call' in n or 'write_soap_action' in n)
        helper_check(s, 'C16')
        sc, info = F.w_ops(tier, 0)
        scenario_check(s, sc, info, emitted_method_bodies_oracle, classify=lambda c, p, i: '')
    return run_e2('C16', tier, body, level='other',
                  bounds='all outcomes of the stubbed stages (check, serialize, send, status class, body text, deserialize), credentials present/absent, 0..1 Pending poll per awaited future, '
                         'for both helpers (with a given client / with a fresh client); generated method bodies over the W-ops family.',
                  explanation='Claimed for the zeep-side logic only. The coroutine MIR of helpers::send_soap_request_using_client and send_soap_request is executed symbolically over '
                              'event-recording stubs of reqwest and yaserde whose results are symbolic (z3 Booleans) and constrained by their documented contracts '
                              '(error_for_status_ref is Err iff the status is 4xx/5xx). On every path: exactly one post+send iff the restriction check and the serialization succeeded, to the '
                              'given address, body = the serialization, basic_auth iff credentials (with those values), Ok only if every stage succeeded and the status is not 4xx/5xx, the Ok '
                              'value is what from_str returned for the reply body, no parse of a failed exchange. That one send() is one HTTP POST on the wire, redirects, TLS and transport '
                              'behaviour are reqwest\'s and trusted.',
                  extra_assumptions=['reqwest / yaserde are nondeterministic stubs with contract-constrained results; no native replay exists for stub scenarios'])


# ================================================================================================ C07

def parse_restriction_ctor(body_lines):
    """lines of an impl_check body -> (dict facet->value text, tuple of enumeration values) or None when no constructor"""
    txt = [RO.one(l) if not isinstance(l, str) else l for l in body_lines]
    if not any('restrictions::Restrictions {' in t for t in txt):
        return None
    return True


def facet_oracle(env, items, info, m):
    out = []
    impl = [it for it in items if it.kind == 'impl_check' and RO.one(it.name) == 'Code']
    out.append(O.Check('restricted-type-has-check', 'the restricted simple type has a check_restrictions impl (found %d)' % len(impl), len(impl) == 1))
    if len(impl) != 1:
        return out
    body = impl[0].body
    got = {}
    enums = []
    in_enum = False
    extra = []
    for l in body:
        t = RO.one(l)
        mm = re.match(r'\s*(\w+): Some\((.*)\),\s*$', t if isinstance(t, str) else '')
        if mm and mm.group(1) != 'enumeration':
            got[mm.group(1)] = smap(lambda s_: re.match(r'\s*(\w+): Some\((.*)\),\s*$', s_).group(2), l)
            continue
        if isinstance(t, str) and 'enumeration: Some(vec![' in t:
            in_enum = True
            continue
        if in_enum:
            me = re.match(r'\s*"(.*)"\.to_string\(\),\s*$', t)
            if me:
                enums.append(smap(lambda s_: re.match(r'\s*"(.*)"\.to_string\(\),\s*$', s_).group(1), l))
                continue
            if t.strip().startswith(']'):
                in_enum = False
                continue
    for f, sel in info.facets.items():
        rf = F.RUST_FACET[f]
        want = env.v(sel)
        if rf in got:
            ok = RO.sym_eq(got[rf], want, env.allowed)           # value equal (and the facet is declared)
            ok = smap(lambda a, b: a == b and b != F.ABSENT, got[rf], want, allowed=env.allowed)
            out.append(O.Check('facet-value', 'facet %s: the emitted constructor must carry the declared value' % f, ok, cls=lambda p, f=f: f))
        else:
            ok = smap(lambda b: b == F.ABSENT, want, allowed=env.allowed)
            out.append(O.Check('facet-declared-but-not-emitted', 'facet %s is declared but the emitted constructor does not set it' % f, ok, cls=lambda p, f=f: f))
    for k in got:
        if k not in F.RUST_FACET.values():
            out.append(O.Check('facet-undeclared', 'the constructor sets %s which the schema does not declare / zeep does not support' % k, False))
    n = env.v(info.nenum)
    out.append(O.Check('enumeration-count', 'enumeration: %d values emitted' % len(enums), smap(lambda k: k == len(enums), n, allowed=env.allowed)))
    want_vals = ['A', '', 'b c']
    for i, e in enumerate(enums[:3]):
        out.append(O.Check('enumeration-value', 'enumeration value #%d' % i, RO.sym_eq(e, want_vals[i], env.allowed)))
    out += delegation_checks(env, items)
    return out


def delegation_checks(env, items):
    """every struct has a check_restrictions impl that delegates to each of its fields exactly once and propagates Err"""
    out = []
    impls = {}
    for it in items:
        if it.kind == 'impl_check':
            impls.setdefault((RO.one(it.module), RO.one(it.name)), []).append(it)
    for st in items:
        if st.kind != 'struct' or not st.fields:
            continue
        if any(RO.one(fd)[0] in ('client',) for fa, fd in st.fields):
            continue        # the service client struct is not a message type
        key = (RO.one(st.module), RO.one(st.name))
        im = impls.get(key, [])
        out.append(O.Check('struct-has-check', 'struct %s has exactly one check_restrictions impl (found %d)' % (key[1], len(im)), len(im) == 1, cls=lambda p: ''))
        if len(im) != 1:
            continue
        body = [RO.one(l) for l in im[0].body]
        fields = [RO.one(fd)[0] for fa, fd in st.fields]
        is_alias = fields == ['value']
        for f in fields:
            calls = [t for t in body if re.search(r'\bself\.%s\.check_restrictions\(' % re.escape(f), t)]
            propagates = [t for t in calls if t.rstrip().endswith('?;') or not t.rstrip().endswith(';')]
            if is_alias:
                # a simple-type wrapper checks its value against its own facets and (since fix 91eaa47) also against the facets handed down by a
                # type derived from it: one or two delegations, each propagating, one of them with the facets in scope as `restrictions`
                ok = (1 <= len(calls) <= 2 and len(propagates) == len(calls) and sum(1 for t in calls if re.search(r'check_restrictions\(restrictions\)', t)) == 1) \
                    or (len(calls) == 1 and len(propagates) == 1)     # a complex type whose only member happens to be called value
            else:
                ok = len(calls) == 1 and len(propagates) == 1
            out.append(O.Check('field-delegation', '%s: field %s must be checked (members exactly once) and its error propagated (calls: %s)' % (key[1], f, [c.strip() for c in calls]),
                               ok, cls=lambda p: ''))
        tail = [t.strip() for t in body if t.strip() and not t.strip().startswith('}')]
        ends_ok = bool(tail) and (tail[-1] == 'Ok(())' or re.search(r'\.check_restrictions\(.*\)$', tail[-1]) is not None)
        out.append(O.Check('check-returns-result', '%s: the check ends by returning Ok(()) or the last delegation (%r)' % (key[1], tail[-1:] or None), ends_ok, cls=lambda p: ''))
    return out


def c07(tier):
    def body(s):
        s.functions.update(n for n in s.ctx.bodies if re.search(r'build_restrictions|get_restriction_from|restrictions::<impl.*write_xml|write_check_restrictions|write_complex_type|write_type_alias|write_soap_operation|send_soap_request', n))
        for sc, info in (F.r_facets(tier, False, 'num'), F.r_facets(tier, False, 'len'), F.r_facets(tier, True, 'num'), F.r_facets(tier, True, 'len')):
            scenario_check(s, sc, info, facet_oracle, classify=lambda c, p, i: (c.cls(p) if c.cls else ''))
        # per-struct / per-envelope delegation on WSDL outputs (headers + body)
        for sc, info in (F.w_ops(tier, 2),):
            scenario_check(s, sc, info, lambda env, items, info_, m: delegation_checks(env, items), classify=lambda c, p, i: '')
        # ordering: the check precedes serialization and any I/O, its error is returned
        # (a) value-level execution of the generated checks
        generated_values_check(s, tier)
        helper_check(s, 'C07', keys_filter=lambda k: k in ('helper/check-first', 'helper/io-after-failed-check', 'helper/restriction-error-returned', 'helper/panic', 'helper/diverge'))
        if tier == 'thorough':
            import e1props
            s.parts['kani_on_generated_code'] = e1props.c07_generated_part(s.rep, tier)
            s.assumptions.append('thorough tier, obligation (a): Kani on the code generated for kani_gen/facets.xsd; alloc::fmt::format stubbed; one symbolic leaf per harness')
    return run_e2('C07', tier, body,
                  bounds='(a) the code generated for smi/corpus/facets2.xsd (string length facets, enumeration, integer bounds on a text carrier, a chain of three simple types each derived from the previous one, ' 
                         ' required / optional / repeated members, attribute, nesting depth 2 through a repeated complex member) is compiled and its MIR executed with one symbolic leaf per '
                         'position (15 positions, 21 strings each incl. absent for optional members; the symbolic leaf is the second element of a repeated member) and with two symbolic leaves '
                         '(3 pairs quick, all 105 pairs thorough); the Ok/Err outcome of every path is compared by z3 with the facets the schema declares (own and inherited). '
                         '(b) restricted simple type with each of the 7 supported facets absent or one of 3-4 values (negative, i32 extremes), as child elements or as attributes of xs:restriction, '
                         '0..2 enumeration values, three unsupported facets present; base over string/int/long; holder type using it as required / optional / repeated member; every struct and '
                         'envelope (2 header parts) must delegate to each field once. (c) coroutine MIR of both helpers over symbolic stub outcomes. Outside: values that are not in the lexical '
                         'space of the base type (non-numeric text under integer facets: only absence of panics is required), whiteSpace collapsing, facets zeep does not support (pattern, '
                         'totalDigits, fractionDigits), numeric carriers other than text (facet semantics on integer carriers are C06).',
                  extra_assumptions=['(a): the generated file is compiled with the nightly toolchain for the MIR dump and with the stable toolchain for the native differential run '
                                     '(every single-position case is also executed natively and must agree with the interpreter)'])



GEN_VALUES = ['', 'a', 'ab', 'abc', 'abcd', 'éa', 'éé€', 'ééé€', 'on', 'off', 'On', '1', '0', '99', '100', '-1', '+7', '007', 'x1',
              '9' * 40, '-' + '9' * 40]


def generated_values_check(s, tier, fixture=None, root='Outer'):
    """obligation (a): the check_restrictions code that zeep GENERATES for a fixture schema is compiled, its MIR executed
    symbolically on an instance whose leaf value(s) are symbolic, and the Ok/Err outcome of every path is compared by the
    solver with a reference evaluation of the schema's own facet declarations (own and inherited)."""
    import gencode as GC
    from sym import Selector
    from models import SMI
    fixture = fixture or os.path.join(VERIF, 'smi/corpus/facets2.xsd')
    try:
        bodies, work, text = GC.generate_and_dump(fixture, s.ctx)
    except RuntimeError as e:
        rdir = save_replay('C07', 'generated_code_does_not_compile', {'finding.txt': str(e)})
        s.rep.violation('generated/compiles', 'zeep\'s output for %s does not compile: %s' % (os.path.basename(fixture), str(e)[-300:]), rdir)
        return
    s.functions.update('generated:' + n for n in bodies if 'check_restrictions' in n or 'check_integer_restrictions' in n)
    fm = GC.FixtureModel(fixture)
    structs = GC.generated_structs(text)
    bld = GC.Builder(fm, structs)
    positions = fm.positions(root)
    singles = [(p,) for p in positions]
    pairs = []
    if tier == 'thorough':
        pairs = [(a, b) for i, a in enumerate(positions) for b in positions[i + 1:]]
    else:
        # a shallow and a deep position; two positions inside the same repeated member; attribute + derived type
        want = [(('holder', 'code'), ('more', 'qty')), (('more', 'codes'), ('more', 'maybe')), (('holder', 'tag'), ('holder', 'short'))]
        byp = {p[0]: p for p in positions}
        pairs = [(byp[a], byp[b]) for a, b in want if a in byp and b in byp]
    cases_native = []       # (node, expected description) for the differential run
    smi_results = []

    def expect(pos, v):
        """None = don't care (lexically outside the base type), else the violated facet or '' when valid"""
        path, t, kinds = pos
        if v is GC.ABSENT:
            return ''
        if not fm.lexically_valid(t, v):
            return None
        if t not in fm.simple:
            return ''
        return fm.violates(t, v) or ''

    for group in singles + pairs:
        s.scenarios += 1
        sels = []
        for gi, pos in enumerate(group):
            dom = list(GEN_VALUES)
            sels.append(Selector('leaf%d' % gi, dom))
        absent_variants = [False]
        if len(group) == 1 and group[0][2][-1] == 'opt':
            absent_variants = [False, True]
        for absent in absent_variants:
            def entry(m, group=group, sels=sels, absent=absent):
                for sl in sels:
                    m.pc.append(sl.domain)
                at = {pos[0]: (GC.ABSENT if absent else sl.sym()) for pos, sl in zip(group, sels)}
                node = bld.inst(root, at)
                cell = [GC.to_smi(node)]
                return m.call('<%s as CheckRestrictions>::check_restrictions' % root, [Ref(cell, 0), NONE()])
            try:
                res = explore(lambda: SMI(bodies, work), entry, max_paths=4000)
            except RuntimeError as e:
                rdir = save_replay('C07', 'generated_shape', {'finding.txt': str(e)})
                s.rep.violation('generated/shape', str(e)[:300], rdir)
                return
            s.count(res)
            if len(res) > 1:
                s.nontrivial += 1
            label = '+'.join('.'.join(p[0]) for p in group) + ('/absent' if absent else '')
            nviol = 0
            for m, out in res:
                if out[0] != 'ok':
                    actual = 'PANIC' if out[0] == 'panic' else 'DIVERGE'
                else:
                    r = out[1]
                    actual = 'OK' if r.variant == 0 else 'ERR'
                # the solver decides: is there an assignment of the symbolic leaves on this path whose reference verdict differs?
                bad = []
                combos = itertools.product(*[range(len(sl.options)) for sl in sels]) if not absent else [tuple(0 for _ in sels)]
                for idx in combos:
                    exps = [expect(pos, GC.ABSENT if absent else sl.options[i]) for pos, sl, i in zip(group, sels, idx)]
                    if any(x is None for x in exps):
                        want_ = None if actual in ('OK', 'ERR') else 'no panic'
                    else:
                        want_ = 'ERR' if any(exps) else 'OK'
                    if want_ is not None and want_ != actual:
                        bad.append((idx, exps))
                s.queries += 1
                if not bad:
                    continue
                t0 = time.time()
                sol = z3.Solver()
                sol.add(*m.pc)
                sol.add(z3.Or(*[z3.And(*[sl.var == i for sl, i in zip(sels, idx)]) for idx, _ in bad]))
                r = sol.check()
                s.solver_s += time.time() - t0
                if r == z3.unknown:
                    raise Unsupported('solver unknown')
                if r != z3.sat:
                    continue
                mdl = sol.model()
                vals = [GC.ABSENT if absent else sl.value_in(mdl) for sl in sels]
                exps = [expect(pos, v) for pos, v in zip(group, vals)]
                node = bld.inst(root, {pos[0]: v for pos, v in zip(group, vals)})
                def kind_of(p, x):
                    if not x:
                        return 'valid'
                    declaring = x.split(' of ')[1].split(' ')[0]
                    if declaring != p[1]:
                        return 'inherited-facet'
                    return 'derived-own-facet' if fm.simple[p[1]][1] else 'facet'
                kinds = sorted({kind_of(p, x) for p, x in zip(group, exps)})
                key = 'generated/%s/%s/%s' % ('accepts-violation' if actual == 'OK' else 'rejects-valid' if actual == 'ERR' else actual.lower(), '+'.join(kinds),
                                               '+'.join(('.'.join(p[0])) for p in group))
                if key in s.rep.seen:
                    nviol += 1
                    continue
                nat = GC.native_results(work, root, structs, [node])[0]
                s.replays += 1
                natk = (nat or 'NONE').split(' ')[0]
                what = 'checking %s with %s: generated check_restrictions gives %s, the schema says %s' % (
                    root, ', '.join('%s=%r' % ('.'.join(p[0]), v) for p, v in zip(group, vals)), actual,
                    ('a violation of ' + '; '.join(x for x in exps if x)) if any(exps) else 'every value is valid')
                if natk != actual:
                    s.rep.inconc('generated-code counterexample does not reproduce natively (%s natively): %s' % (nat, what))
                    continue
                nviol += 1
                rdir = save_replay('C07', re.sub(r'\W+', '_', key), {'finding.txt': what + '\nnative: %s\n' % nat, 'fixture.xsd': open(fixture).read(),
                                                                     'value.rs': GC.to_rust(node, structs) + '\n',
                                                                     'replay.sh': '#!/bin/sh\n# generate code for fixture.xsd with zeep, build value.rs in a main, call check_restrictions(None)\n'})
                s.rep.violation(key, what, rdir)
            s.samples.append(dict(scenario='generated-code/' + label, paths=len(res), violations=nviol,
                                  symbolic='leaf value(s) over %d strings (lengths 0..5 in code points incl. multi-byte, enumeration members, integers at / beyond the facet bounds, signs, leading zeros, i128 overflow)' % len(GEN_VALUES)))
            if len(group) == 1 and not absent:
                for i, v in enumerate(sels[0].options):
                    cases_native.append((bld.inst(root, {group[0][0]: v}), label, v))
                    hit = [('OK' if o[1].variant == 0 else 'ERR') if o[0] == 'ok' else 'PANIC' for mm, o in res if i in mm.allowed.get('leaf0', {i})]
                    smi_results.append(hit[0] if len(hit) == 1 else 'AMBIGUOUS %r' % (hit,))
    # differential validation of the interpreter on the generated code: every single-position case natively
    nat = GC.native_results(work, root, structs, [c[0] for c in cases_native])
    mism = [(c[1], c[2], a, b) for c, a, b in zip(cases_native, smi_results, nat) if (b or 'NONE').split(' ')[0] != a]
    if mism:
        s.rep.inconc('interpreter and native build disagree on generated code: %r' % (mism[:4],))
    s.validated += len(cases_native) - len(mism)


# ================================================================================================ C17: the CLI

import posixpath


class VFS:
    """symbolic-free model of the file system for one path: {absolute path: bytes}, directories implied; records events"""

    def __init__(self, files, dirs, cwd, events):
        self.files = dict(files)
        self.dirs = set(dirs)
        self.cwd = cwd
        self.events = events
        self.unreadable = set()

    def abs(self, p):
        if p == '':
            return None
        return posixpath.normpath(posixpath.join(self.cwd, p))


def rust_parent(p):
    """std::path::Path::parent on a unix path string"""
    if p in ('', '/'):
        return None
    q = p.rstrip('/')
    if '/' not in q:
        return ''
    head = q.rsplit('/', 1)[0]
    return head if head else '/'


def rust_file_name(p):
    q = p.rstrip('/')
    base = q.rsplit('/', 1)[-1]
    if base in ('', '.', '..'):
        return None
    return base


def rust_components(p):
    out = []
    if p.startswith('/'):
        out.append('/')
    parts = [x for x in p.split('/') if x != '']
    for i, x in enumerate(parts):
        if x == '.' and (i > 0 or p.startswith('/')):
            continue
        out.append(x)
    return out


class VFile(Sink):
    def __init__(self, vfs, path):
        Sink.__init__(self)
        self.vfs = vfs
        self.path = path


def cli_hook(vfs, argv):
    def hook(mm, c0, args):
        from interp import strip_generics as _sg
        c = re.sub(r'^std::(ffi|path|fs)::(?=OsStr|OsString|Path|PathBuf)', '', _sg(c0))
        meth = c.split('::')[-1].split('<')[0]
        a0 = args[0] if args else None
        if c in ('init', 'env_logger::init'):
            return ()
        if c.startswith('BufWriter::') or c.startswith('std::io::BufWriter::') or c.startswith('LineWriter::'):
            if meth in ('new', 'with_capacity'):
                return args[-1]          # buffering is transparent here: bytes count as written when handed over
            if meth == 'into_inner':
                return OK(a0)
            if meth in ('get_ref', 'get_mut'):
                return a0
        if c.startswith('OpenOptions::') or c.startswith('std::fs::OpenOptions::'):
            if meth == 'new':
                return Opaque('OpenOptions', {})
            if meth in ('write', 'create', 'truncate', 'append', 'read', 'create_new'):
                deref(a0).data[meth] = args[1]
                return a0
            if meth == 'open':
                o = deref(a0).data
                f = vfs.abs(as_str(args[1]))
                vfs.events.append(('create', f))
                if f is None or posixpath.dirname(f) not in vfs.dirs:
                    return ERR(Opaque('io::Error', {'kind': 'NotFound'}))
                if f not in vfs.files and not (o.get('create') or o.get('create_new')):
                    return ERR(Opaque('io::Error', {'kind': 'NotFound'}))
                if o.get('truncate') or f not in vfs.files:
                    vfs.files[f] = ''
                return OK(VFile(vfs, f))
        if c.startswith('clap::Command::') or c.startswith('Arg::') or c.startswith('clap::Arg::'):
            if meth == 'get_matches':
                if '-i' not in argv:
                    raise Panic('clap: required argument missing (process exits with status 2)')
                return Opaque('ArgMatches', argv)
            return Opaque('clap-builder')
        if c.startswith('ArgMatches::get_one'):
            name = as_str(args[1])
            flag = {'to_file': '-o', 'from_file': '-i'}.get(name)
            av = deref(a0).data
            if flag in av:
                return SOME(Ref([RString(av[flag])], 0))
            return NONE()
        if c.startswith('Path::new') or c.startswith('OsStr::new') or re.match(r'<(PathBuf|OsString) as From<.*>>::from$', c) or c.startswith('PathBuf::from') or c.startswith('PathBuf::new'):
            return as_str(a0) if args else ''
        if c.startswith('PathBuf::push'):
            q = as_str(args[1])
            base = as_str(a0)
            args[0].set(q if q.startswith('/') else (base.rstrip('/') + '/' + q if base else q))
            return ()
        if c.startswith('PathBuf::set_extension'):
            p_ = as_str(a0)
            fn = rust_file_name(p_)
            ext = as_str(args[1])
            if fn is None:
                return False
            stem = fn.rsplit('.', 1)[0] if '.' in fn[1:] else fn
            args[0].set(p_[:len(p_.rstrip('/')) - len(fn)] + stem + ('.' + ext if ext else ''))
            return True
        if c.startswith('Path::to_path_buf') or (c.startswith('<PathBuf as Deref>') and meth == 'deref') or c.startswith('PathBuf::from') or c.startswith('Path::as_os_str') or c.startswith('PathBuf::as_path'):
            return as_str(a0)
        p = as_str(a0) if args else None
        if c.startswith('Path::is_file'):
            return vfs.abs(p) in vfs.files
        if c.startswith('Path::is_dir'):
            return vfs.abs(p) in vfs.dirs
        if c.startswith('Path::exists'):
            return vfs.abs(p) in vfs.files or vfs.abs(p) in vfs.dirs
        if c.startswith('Path::file_name'):
            return opt(rust_file_name(p))
        if c.startswith('Path::file_stem'):
            fn = rust_file_name(p)
            if fn is None:
                return NONE()
            return SOME(fn.rsplit('.', 1)[0] if '.' in fn[1:] else fn)
        if c.startswith('Path::with_file_name'):
            par = rust_parent(p)
            name = as_str(args[1])
            return name if par in (None, '') else (par.rstrip('/') + '/' + name)
        if c.startswith('Path::parent'):
            return opt(rust_parent(p))
        if c.startswith('Path::extension'):
            fn = rust_file_name(p)
            if fn is None or '.' not in fn[1:]:
                return NONE()
            return SOME(fn.rsplit('.', 1)[1])
        if c.startswith('Path::with_extension'):
            fn = rust_file_name(p)
            ext = as_str(args[1])
            if fn is None:
                return p
            stem = fn.rsplit('.', 1)[0] if '.' in fn[1:] else fn
            return p[:len(p.rstrip('/')) - len(fn)] + stem + ('.' + ext if ext else '')
        if c.startswith('Path::join') or c.startswith('PathBuf::join'):
            q = as_str(args[1])
            return q if q.startswith('/') else (p.rstrip('/') + '/' + q if p else q)
        if c.startswith('OsStr::to_str') or c.startswith('Path::to_str'):
            return SOME(p)
        if c.startswith('OsStr::is_empty'):
            return p == ''
        if '<Path as PartialEq' in c or '<PathBuf as PartialEq' in c:
            return rust_components(p) == rust_components(as_str(args[1]))
        if '<&OsStr as PartialEq' in c or '<OsStr as PartialEq' in c:
            return p == as_str(args[1])
        if c.startswith('Path::read_dir') or c.startswith('std::fs::read_dir'):
            d = vfs.abs(p)
            vfs.events.append(('read_dir', p))
            if d is None or d not in vfs.dirs:
                return ERR(Opaque('io::Error', {'kind': 'NotFound'}))
            names = sorted(f[len(d.rstrip('/')) + 1:] for f in list(vfs.files) + list(vfs.dirs) if f.startswith(d.rstrip('/') + '/') and '/' not in f[len(d.rstrip('/')) + 1:])
            return OK(It(OK(Opaque('DirEntry', (p.rstrip('/') + '/' + n) if p not in ('',) else n)) for n in names))
        if c.startswith('DirEntry::path'):
            return deref(a0).data
        if c.startswith('std::fs::read_to_string'):
            f = vfs.abs(p)
            vfs.events.append(('read', f))
            if f not in vfs.files or f in vfs.unreadable:
                return ERR(Opaque('io::Error', {'kind': 'NotFound' if f not in vfs.files else 'PermissionDenied'}))
            return OK(RString(vfs.files[f]))
        if c.startswith('File::create') or c.startswith('std::fs::File::create'):
            f = vfs.abs(p)
            vfs.events.append(('create', f))
            if f is None or posixpath.dirname(f) not in vfs.dirs:
                return ERR(Opaque('io::Error', {'kind': 'NotFound'}))
            vfs.files[f] = ''
            return OK(VFile(vfs, f))
        if c.startswith('std::fs::write'):
            f = vfs.abs(p)
            vfs.events.append(('create', f))
            if f is None or posixpath.dirname(f) not in vfs.dirs:
                return ERR(Opaque('io::Error', {'kind': 'NotFound'}))
            data = deref(args[1])
            if isinstance(data, Sink):
                data = ''.join(data.rope)
            elif isinstance(data, RString):
                data = data.s
            elif isinstance(data, list):
                data = ''.join(x if isinstance(x, str) else chr(x) for x in data)
            vfs.files[f] = data
            return OK(())
        if meth == 'write_fmt' and isinstance(deref(a0), VFile):
            vf = deref(a0)
            text = mm.rope_join(mm.render_pieces(args[1]))
            vfs.files[vf.path] = vfs.files.get(vf.path, '') + mm.cstr(text)
            vf.n += 1
            return OK(())
        if meth in ('write_all', 'write') and isinstance(deref(a0), VFile):
            vf = deref(a0)
            buf = deref(args[1])
            if isinstance(buf, Sink):
                text = ''.join(buf.rope)
            elif isinstance(buf, list):
                text = ''.join(x if isinstance(x, str) else chr(x) for x in buf)
            else:
                text = mm.cstr(buf)
            vfs.files[vf.path] = vfs.files.get(vf.path, '') + text
            return OK(len(text.encode())) if meth == 'write' else OK(())
        if meth in ('flush', 'sync_all') and isinstance(deref(a0), VFile):
            return OK(())
        return NotImplemented
    return hook


GOOD_A = '<xs:schema xmlns:xs="http://www.w3.org/2001/XMLSchema" xmlns:t="urn:a" xmlns:b="urn:b" targetNamespace="urn:a"><xs:import namespace="urn:b" schemaLocation="b.xsd"/><xs:complexType name="A"><xs:sequence><xs:element name="x" type="b:B"/></xs:sequence></xs:complexType></xs:schema>'
GOOD_B = '<xs:schema xmlns:xs="http://www.w3.org/2001/XMLSchema" xmlns:b="urn:b" targetNamespace="urn:b"><xs:complexType name="B"><xs:sequence><xs:element name="y" type="xs:int"/></xs:sequence></xs:complexType></xs:schema>'
LATE = None


def _late_failure_doc():
    from xmltree import build as _b, to_xml as _x
    single = _x(_b(F.wsdl_multi(1, multipart=False).tree()))
    return single.replace('<xs:element name="GetQuoteRequest">', '<xs:attribute name="GetQuoteRequest" type="xs:string"/><xs:element name="Unused">', 1)


INPUTS = {
    'good': GOOD_A,
    'fails-while-writing': _late_failure_doc(),
    'malformed': '<xs:schema xmlns:xs="http://www.w3.org/2001/XMLSchema"><xs:complexType name="A">',
    'unresolved-import': GOOD_A.replace('b.xsd', 'nowhere.xsd'),
}


def c17(tier):
    def body(s):
        ctx = s.ctx
        s.functions.update(['zeep::main', 'zeep_lib::utils::read_input_file_and_xsd_files_at_path'] + [n for n in ctx.bin_bodies])
        spelling = Selector('path_spelling', [('absolute', '/w/in', '/w/in/a.xsd'), ('relative-with-dir', '/w', 'in/a.xsd'), ('dot-slash', '/w/in', './a.xsd'),
                                              ('bare-name', '/w/in', 'a.xsd'), ('missing-file', '/w/in', 'nope.xsd')])
        outarg = Selector('output_arg', [None, '/w/out/gen.rs', 'gen2.rs', 'gen.txt', 'generated'])
        pre = Selector('preexisting_output', ['absent', 'shorter', 'longer'])
        content = Selector('input_content', list(INPUTS))
        sibling = Selector('sibling', ['readable', 'unreadable'])
        # b.wsdl: the input shares its stem with the sibling b.xsd that it imports
        inname = Selector('input_name', ['a.xsd', 'a.v2.xsd', 'b.wsdl'])
        OLD = {'absent': None, 'shorter': '// old\n', 'longer': '// old output\n' + '// padding line\n' * 4000}
        s.scenarios += 1

        def entry(m):
            for sel in (spelling, outarg, pre, content, sibling, inname):
                m.pc.append(sel.domain)
            sp = m.concretize(spelling.sym())
            oa = m.concretize(outarg.sym())
            pr = m.concretize(pre.sym())
            ct = m.concretize(content.sym())
            sb = m.concretize(sibling.sym())
            nm = m.concretize(inname.sym())
            sp = (sp[0], sp[1], sp[2].replace('a.xsd', nm))
            events = []
            files = {'/w/in/' + nm: INPUTS[ct], '/w/in/b.xsd': GOOD_B, '/w/in/readme.txt': 'not a schema', '/w/in/a.rs.keep': 'unrelated'}
            vfs = VFS(files, {'/w', '/w/in', '/w/out', '/'}, sp[1], events)
            if sb == 'unreadable':
                vfs.unreadable.add('/w/in/b.xsd')
            argv = {'-i': sp[2]}
            if oa is not None:
                argv['-o'] = oa
            expected_out = vfs.abs(oa) if oa is not None else vfs.abs(posixpath.splitext(sp[2])[0] + '.rs')
            if OLD[pr] is not None:
                vfs.files[expected_out] = OLD[pr]
            m.hooks.append(cli_hook(vfs, argv))
            main = [b for n, b in m.b.items() if n == 'main' and b.kind == 'fn'][0]
            outcome = 'exit0'
            try:
                m.run(main, [])
            except Panic as e:
                outcome = 'panic: ' + str(e)[:80]
            return dict(spelling=sp[0], arg=sp[2], cwd=sp[1], input_name=nm, output_arg=oa, pre=pr, content=ct, sibling=sb, outcome=outcome, events=events, vfs=vfs,
                        expected_out=expected_out, old=OLD[pr])
        res = explore(lambda: H.machine(ctx, binary=True), entry)
        s.count(res)
        if len(res) > 1:
            s.nontrivial += 1
        # the library's own output for the good file set: what every successful CLI run must write
        mlib = H.machine(ctx)
        rlib = H.generate(mlib, {'a.xsd': GOOD_A, 'b.xsd': GOOD_B}, 'a.xsd')
        lib_text = H.rope_text(mlib, rlib[1]) if rlib[0] == 'ok' else None
        found = {}
        for m, out in res:
            if out[0] != 'ok':
                found.setdefault('c17/internal/' + out[0], (str(out[1]), None))
                continue
            r = out[1]
            should_succeed = r['content'] == 'good' and r['sibling'] == 'readable' and r['spelling'] != 'missing-file'
            final = r['vfs'].files.get(r['expected_out'])
            if should_succeed:
                if r['outcome'] != 'exit0':
                    found.setdefault('c17/valid-input-fails/' + r['spelling'], ('a valid input given as %s path fails: %s' % (r['spelling'], r['outcome']), r))
                elif final != lib_text:
                    kind = 'stale-bytes' if final is not None and lib_text is not None and final.startswith(lib_text) else 'wrong-bytes' if final is not None else 'wrong-output-path'
                    found.setdefault('c17/%s/%s' % (kind, r['spelling']), ('output file %s does not hold exactly the library output (%s)' % (r['expected_out'], kind), r))
            else:
                if r['outcome'] == 'exit0':
                    found.setdefault('c17/failure-exits-zero/' + r['content'], ('generation cannot succeed (%s, sibling %s) but the process exits 0' % (r['content'], r['sibling']), r))
                if r['old'] is not None and final != r['old']:
                    stage = 'input-missing' if r['spelling'] == 'missing-file' else 'sibling-unreadable' if r['sibling'] == 'unreadable' and r['content'] == 'good' else r['content']
                    found.setdefault('c17/failure-clobbers-output/' + stage, ('generation fails (%s) but the pre-existing output %s is %s' % (
                        stage, r['expected_out'], 'truncated / rewritten' if final is not None else 'removed'), r))
        s.samples.append(dict(paths=len(res), symbolic={x.name: [o if not isinstance(o, tuple) else o[0] for o in x.options] for x in (spelling, outarg, pre, content, sibling, inname)},
                              violations=sorted(found)))
        # native replay with the real binary in a scratch directory
        for key, (what, r) in sorted(found.items()):
            if r is None:
                s.rep.inconc('%s: %s' % (key, what))
                continue
            d = tempfile.mkdtemp(prefix='zeep-verif-c17.')
            try:
                os.makedirs(d + '/w/in')
                os.makedirs(d + '/w/out')
                open(d + '/w/in/' + r['input_name'], 'w').write(INPUTS[r['content']])
                open(d + '/w/in/b.xsd', 'w').write(GOOD_B)
                open(d + '/w/in/readme.txt', 'w').write('not a schema')
                if r['sibling'] == 'unreadable':
                    os.remove(d + '/w/in/b.xsd')
                    os.makedirs(d + '/w/in/b.xsd')      # a directory named b.xsd: read_to_string fails (root ignores permissions)
                cwd = d + r['cwd']
                arg = r['arg'] if not r['arg'].startswith('/') else d + r['arg']
                outp = d + r['expected_out']
                if r['old'] is not None:
                    open(outp, 'w').write(r['old'])
                cmd = [ctx.zeep, '-i', arg]
                if r['output_arg'] is not None:
                    cmd += ['-o', r['output_arg'] if not r['output_arg'].startswith('/') else d + r['output_arg']]
                rc, log_, _ = run(cmd, cwd=cwd, timeout=60)
                final = open(outp).read() if os.path.exists(outp) else None
            finally:
                rmtree(d)
            s.replays += 1
            rdir = save_replay('C17', re.sub(r'\W+', '_', key), {'finding.txt': '%s\n%s\nscenario: %s\nnative: rc=%s %s\n' % (key, what, {k: v for k, v in r.items() if k not in ('vfs', 'events', 'old')}, rc, log_[-400:]),
                                                              'a.xsd': INPUTS[r['content']], 'b.xsd': GOOD_B})
            kind = key.split('/')[1]
            if kind == 'valid-input-fails':
                ok = rc != 0
            elif kind == 'failure-exits-zero':
                ok = rc == 0
            elif kind == 'failure-clobbers-output':
                ok = final != r['old']
            else:
                ok = rc == 0 and final != lib_text
            if ok:
                s.rep.violation(key, what + ' [spelling=%s output=%s pre-existing=%s input=%s sibling=%s]' % (r['spelling'], r['output_arg'], r['pre'], r['content'], r['sibling']), rdir)
            else:
                s.rep.inconc('ENCODING-MISMATCH %s: native rc=%s, output %s' % (key, rc, 'unchanged' if final == r['old'] else 'changed'))
    return run_e2('C17', tier, body, level='other',
                  bounds='path spelling in {absolute, relative with directory, ./name, bare name, missing file} x --output in {absent, absolute, relative} x pre-existing output in {absent, shorter, longer} '
                         'x input in {good, malformed XML, unresolved import} x sibling readable/unreadable x input name with one or two dots or sharing its stem with the imported sibling x output path with rs / another / no extension, all explored (selectors concretised by the solver).',
                  explanation='Claimed for the ordering / derivation logic of main and read_input_file_and_xsd_files_at_path only. Their MIR is executed over a model of clap (argument lookup) and of '
                              'std::path / std::fs (Path algebra per std\'s documented component semantics, a file-system map with create = truncate). Every run is compared with the library output '
                              'computed from the same MIR; every finding is replayed with the natively built zeep binary in a scratch directory. Real OS behaviour (permissions, symlinks, '
                              'non-UTF-8 names) is outside.')


# ================================================================================================ C13

C13_DOCS = {
    'types.xsd': '''<xs:schema xmlns:xs="http://www.w3.org/2001/XMLSchema" xmlns:t="urn:t" targetNamespace="urn:t">
<xs:simpleType name="Code"><xs:annotation><xs:documentation>doc</xs:documentation></xs:annotation><xs:restriction base="xs:string"><xs:maxLength value="3"/><xs:enumeration value="A"/></xs:restriction></xs:simpleType>
<xs:simpleType name="Codes"><xs:list itemType="t:Code"/></xs:simpleType>
<xs:simpleType name="Either"><xs:union memberTypes="t:Code xs:int"/></xs:simpleType>
<xs:complexType name="Base"><xs:sequence><xs:element name="id" type="xs:long"/></xs:sequence><xs:attribute name="v" type="xs:string" use="required"/></xs:complexType>
<xs:complexType name="Derived"><xs:complexContent><xs:extension base="t:Base"><xs:sequence><xs:element name="code" type="t:Code" minOccurs="0" maxOccurs="unbounded"/><xs:choice><xs:element name="a" type="xs:int"/><xs:element ref="t:Note"/></xs:choice><xs:any/></xs:sequence><xs:attribute name="w" type="xs:string"/></xs:extension></xs:complexContent></xs:complexType>
<xs:element name="Note" type="xs:string"/>
<xs:element name="Wrapper"><xs:complexType><xs:sequence><xs:element name="d" type="t:Derived"/></xs:sequence></xs:complexType></xs:element>
<xs:group name="Grp"><xs:sequence><xs:element name="g" type="xs:string"/></xs:sequence></xs:group>
</xs:schema>''',
}


def c13(tier):
    def body(s):
        ctx = s.ctx
        s.functions.update(n for n in ctx.bodies if '::tests::' not in n and ctx.bodies[n].kind == 'fn')
        budget = 2 if tier == 'thorough' else 1
        from xmltree import build as _build, to_xml as _to_xml
        small = _to_xml(_build(F.wsdl_multi(1, multipart=True).tree()))
        # a WSDL whose binding names body parts (parts=) and binds header parts, for the request and for the response
        bound = _to_xml(F.w_out_hdr(tier)[0].docs['svc.wsdl'])
        docs = [('types.xsd', {'types.xsd': C13_DOCS['types.xsd']}, 'types.xsd'), ('small.wsdl', {'small.wsdl': small}, 'small.wsdl'),
                ('bound.wsdl', {'bound.wsdl': bound}, 'bound.wsdl')]
        if tier == 'thorough':
            docs.append(('all_emitters.wsdl', corpus_files('all_emitters.wsdl'), 'all_emitters.wsdl'))
        for name, files, start in docs:
            budget = (2 if tier == 'thorough' and name not in ('all_emitters.wsdl', 'bound.wsdl') else 1)
            doc, flags, sels, dom = F.departure_doc(files[start], budget=budget)
            fs = dict(files)
            fs[start] = doc
            sc = Scenario('departures:' + name, fs, start, [])
            sc.domain = dom
            sc.selectors = sels
            sc.departure = (budget, {x.name: x.var for x in sels})
            s.scenarios += 1
            res = sc.explore(ctx, max_paths=40000)
            s.count(res)
            if len(res) > 1:
                s.nontrivial += 1
            stats = dict(scenario=sc.name, departures_at_once=budget, optional_attributes_and_elements=len(flags), retargetable_qnames=len(sels), paths=len(res), ok=0, err=0, panic=0, diverge=0, violations=[])
            seen = set()
            for m, out in res:
                if out[0] == 'ok':
                    stats['ok' if out[1][0] == 'ok' else 'err'] += 1
                    continue
                stats[out[0]] += 1
                e = out[1]
                where = re.sub(r'<impl at [^>]*>', '<impl>', getattr(e, 'where', '') or '')
                kind = 'panic' if out[0] == 'panic' else 'non-termination'
                key = 'c13/%s/%s/%s' % (kind, where.split('::')[-1] or '?', re.sub(r'[^\w ]+', '', str(e))[:40].strip().replace(' ', '-'))
                if key in seen:
                    continue
                seen.add(key)
                # a witness with as few departures as the path allows (selectors the path never looked at stay at the original value)
                zs = z3.Solver()
                zs.add(*m.pc)
                if zs.check() != z3.sat:
                    continue
                for x in sels:
                    zs.push()
                    zs.add(x.var == 0)
                    if zs.check() != z3.sat:
                        zs.pop()
                for b in flags:
                    zs.push()
                    zs.add(z3.Not(b))
                    if zs.check() != z3.sat:
                        zs.pop()
                zs.check()
                model = zs.model()
                active = [str(b) for b in flags if z3.is_true(model.eval(b, model_completion=True))] + ['%s=%s' % (x.name, x.value_in(model)) for x in sels if x.value_in(model) != x.options[0]]
                rc, txt, log_, cfiles = sc.native(ctx, model)
                s.replays += 1
                rdir = save_replay('C13', re.sub(r'\W+', '_', key)[:80], dict(list(cfiles.items()) + [
                    ('finding.txt', '%s\n%s in %s\ndepartures: %s\nnative rc=%s\n%s\n' % (key, e, where, active, rc, (log_ or '')[-600:]))]))
                crashed = rc != 0 and ('panicked' in (log_ or '') or 'overflowed its stack' in (log_ or '') or rc < 0)
                # the CLI turns every Err into a panic through expect(): only a panic that is NOT one of main's own expect messages is the library's
                lib_panic = crashed and not re.search(r"main\.rs:\d+:\d+:\ncan not (read xml|write xml|read input file|create file)", log_ or '')
                stats['violations'].append(key)
                if lib_panic:
                    s.rep.violation(key, '%s: %s with departures %s' % (name, e, active), rdir)
                else:
                    s.rep.inconc('ENCODING-MISMATCH %s: SMI %s (%s) but native rc=%s: %s' % (key, kind, active, rc, (log_ or '')[-200:].replace('\n', ' | ')))
            s.samples.append(stats)
        # supported-subset families with adversarial text (non-ASCII URIs, keyword / odd names): no path may panic or diverge
        for sc, info in [F.s_xref(tier), F.n_within(tier)] + F.inject_all(tier):
            s.scenarios += 1
            res = sc.explore(ctx)
            s.count(res)
            bad = [(m, out) for m, out in res if out[0] in ('panic', 'diverge')]
            s.samples.append(dict(scenario='no-panic:' + sc.name, paths=len(res), panics=len(bad)))
            seen_k = set()
            for m, out in bad:
                e = out[1]
                where = re.sub(r'<impl at [^>]*>', '<impl>', getattr(e, 'where', '') or '')
                key = 'c13/%s/%s/%s' % ('panic' if out[0] == 'panic' else 'non-termination', where.split('::')[-1] or '?', re.sub(r'[^\w ]+', '', str(e))[:40].strip().replace(' ', '-'))
                if key in seen_k:
                    continue
                seen_k.add(key)
                model = sc.solve(m)
                params = sc.params(model)
                rc, txt, log_, cfiles = sc.native(ctx, model)
                s.replays += 1
                rdir = save_replay('C13', re.sub(r'\W+', '_', key)[:80], dict(list(cfiles.items()) + [('finding.txt', '%s\n%s in %s\nparameters: %s\nnative rc=%s\n%s\n' % (key, e, where, params, rc, (log_ or '')[-600:]))]))
                lib_panic = rc != 0 and ('panicked' in (log_ or '') or 'overflowed its stack' in (log_ or '')) and not re.search(r"main\.rs:\d+:\d+:\ncan not (read xml|write xml|read input file|create file)", log_ or '')
                if lib_panic:
                    s.rep.violation(key, '%s: %s with %s' % (sc.name, e, {k: v for k, v in params.items()}), rdir)
                else:
                    s.rep.inconc('ENCODING-MISMATCH %s: SMI %s but native rc=%s: %s' % (key, e, rc, (log_ or '')[-200:].replace('\n', ' | ')))
        # definitions that refer to themselves or to each other through forward references
        cyc_docs = {
            'mutual-extension': '<xs:schema xmlns:xs="http://www.w3.org/2001/XMLSchema" xmlns:t="urn:t" targetNamespace="urn:t"><xs:complexType name="A"><xs:complexContent><xs:extension base="t:B"><xs:sequence><xs:element name="a" type="xs:string"/></xs:sequence></xs:extension></xs:complexContent></xs:complexType><xs:complexType name="B"><xs:complexContent><xs:extension base="t:A"><xs:sequence><xs:element name="b" type="xs:string"/></xs:sequence></xs:extension></xs:complexContent></xs:complexType></xs:schema>',
            'self-extension': '<xs:schema xmlns:xs="http://www.w3.org/2001/XMLSchema" xmlns:t="urn:t" targetNamespace="urn:t"><xs:complexType name="A"><xs:complexContent><xs:extension base="t:A"><xs:sequence><xs:element name="a" type="xs:string"/></xs:sequence></xs:extension></xs:complexContent></xs:complexType></xs:schema>',
            'element-ref-cycle': '<xs:schema xmlns:xs="http://www.w3.org/2001/XMLSchema" xmlns:t="urn:t" targetNamespace="urn:t"><xs:element name="P"><xs:complexType><xs:sequence><xs:element ref="t:Q"/></xs:sequence></xs:complexType></xs:element><xs:element name="Q"><xs:complexType><xs:sequence><xs:element ref="t:P" minOccurs="0"/></xs:sequence></xs:complexType></xs:element></xs:schema>',
        }
        for cname, ctext in cyc_docs.items():
            s.scenarios += 1
            sc = Scenario('cyclic:' + cname, {'c.xsd': ctext}, 'c.xsd', [])
            res = sc.explore(ctx)
            s.count(res)
            s.samples.append(dict(scenario=sc.name, paths=len(res), outcomes=[o[0] if o[0] != 'ok' else o[1][0] for _, o in res]))
            for m, out in res:
                if out[0] in ('panic', 'diverge'):
                    rc, txt, log_, cfiles = sc.native(ctx, sc.solve(m))
                    s.replays += 1
                    rdir = save_replay('C13', 'cyclic_' + cname, dict(list(cfiles.items()) + [('finding.txt', '%s\nnative rc=%s\n%s' % (out[1], rc, (log_ or '')[-500:]))]))
                    crashed = rc != 0 and ('overflowed its stack' in (log_ or '') or ('panicked' in (log_ or '') and not re.search(r"main\.rs:\d+:\d+:\ncan not (read xml|write xml|read input file|create file)", log_ or '')))
                    if crashed:
                        s.rep.violation('c13/%s/cyclic-definitions/%s' % ('non-termination' if out[0] == 'diverge' else 'panic', cname), '%s: %s' % (cname, out[1]), rdir)
                    else:
                        s.rep.inconc('ENCODING-MISMATCH cyclic %s: SMI %s, native rc=%s %s' % (cname, out[1], rc, (log_ or '')[-200:]))
        # a message part that names a global component which is not an element (schema-invalid, but any input must be survived)
        single = _to_xml(_build(F.wsdl_multi(1, multipart=False).tree()))
        odd = single.replace('<xs:element name="GetQuoteRequest">', '<xs:attribute name="GetQuoteRequest" type="xs:string"/><xs:element name="Unused">', 1)
        if odd != single:
            s.scenarios += 1
            sc = Scenario('part-names-a-global-attribute', {'odd.wsdl': odd}, 'odd.wsdl', [])
            res = sc.explore(ctx)
            s.count(res)
            for m, out in res:
                if out[0] in ('panic', 'diverge'):
                    rc, txt, log_, cfiles = sc.native(ctx, sc.solve(m))
                    s.replays += 1
                    rdir = save_replay('C13', 'part_names_a_global_attribute', dict(list(cfiles.items()) + [('finding.txt', '%s\nnative rc=%s\n%s' % (out[1], rc, (log_ or '')[-500:]))]))
                    lib_panic = rc != 0 and 'panicked' in (log_ or '') and not re.search(r"main\.rs:\d+:\d+:\ncan not (read xml|write xml|read input file|create file)", log_ or '')
                    if lib_panic:
                        s.rep.violation('c13/panic/body-part-is-not-an-element', 'a message part whose element= names a global xs:attribute: %s' % out[1], rdir)
                    else:
                        s.rep.inconc('ENCODING-MISMATCH odd.wsdl: SMI %s, native rc=%s %s' % (out[1], rc, (log_ or '')[-200:]))
            s.samples.append(dict(scenario=sc.name, paths=len(res), outcomes=[o[0] if o[0] != 'ok' else o[1][0] for _, o in res]))
        # a start file name that is not in the file set
        s.scenarios += 1

        def entry(m):
            ftr = H.make_files(m, {'a.xsd': C13_DOCS['types.xsd']}, 'not-registered.xsd')
            return H.read_xml(m, ftr)
        res = explore(lambda: H.machine(ctx), entry)
        s.count(res)
        for m, out in res:
            if out[0] == 'panic':
                driver = native.build_driver()
                d = tempfile.mkdtemp(prefix='zeep-verif-c13.')
                try:
                    write_files(d, {'a.xsd': C13_DOCS['types.xsd']})
                    rc, o, _ = native.run_driver(driver, d, 'not-registered.xsd', os.path.join(d, '__o'))
                finally:
                    rmtree(d)
                s.replays += 1
                rdir = save_replay('C13', 'start_file_not_registered', {'a.xsd': C13_DOCS['types.xsd'], 'finding.txt': 'FilesToRead::new("not-registered.xsd", files) then read_xml: %s\nnative driver: %s\n' % (out[1], o)})
                if 'PANIC' in o:
                    s.rep.violation('c13/panic/start-file-not-registered', 'read_xml panics when the start file name is not among the registered files (%s)' % out[1], rdir)
                else:
                    s.rep.inconc('ENCODING-MISMATCH start file: native says %s' % o)
        s.samples.append(dict(scenario='start file not in the file set', paths=len(res)))
    return run_e2('C13', tier, body, bounds='departure mode on a schema exercising every reader branch (restriction / list / union simple types, extension, choice, any, ref, group, anonymous type) and on the '
                  'all-emitters WSDL: every attribute and every non-root element may be missing, every QName-valued attribute may dangle or name its own component; at most 1 (quick) / 2 (thorough) '
                  'departures at a time, enforced as a z3 cardinality constraint; plus a start file that is not registered. Import cycles are C11. Divergence = call depth > 60. Outside: text that is '
                  'not well-formed XML beyond "parse fails" (roxmltree), inputs not expressible as departures from these documents, wall-clock time.')


# ================================================================================================ C14 (sites)

import rustlex as RL
from sym import g_and, g_or, TRUE as G_TRUE, lift as sym_lift


def lex_rope_symbolic(m, rope, info):
    """runs the lexer over the rope with a symbolic state. Yields findings: (key, what, z3 condition)."""
    findings = []
    state = RL.CODE
    site_of = {x.name: x for x in info.sites}
    for pi, piece in enumerate(rope):
        if isinstance(piece, str) and (piece.startswith('pub mod error {') or '\npub mod error {' in piece[:40]):
            break        # the verbatim helper module: constant text, not schema-dependent
        joint = []       # (guard, entry state, text)
        for gs, st in sym_lift(state, m.allowed):
            for gp, tx in sym_lift(piece, m.allowed):
                g = g_and(gs, gp)
                if g is not None:
                    joint.append((g, st, tx, gp))
        results = []
        for g, st, tx, gp in joint:
            st2, toks = RL.lex(st, tx)
            results.append((g, st, tx, st2, toks, gp))
        # rule A: within one erased entry state, the erased exit state and the tokens must not depend on the alternative
        groups = {}
        for r in results:
            groups.setdefault(RL.erase_state(r[1]), []).append(r)
        for e, rs in groups.items():
            ref = (RL.erase_state(rs[0][3]), rs[0][4])
            for g, st, tx, st2, toks, gp in rs[1:]:
                if (RL.erase_state(st2), toks) != ref:
                    site = next((n for n in (g.cube or {}) if n in site_of), None) or next((n for n in site_of if n in str(g.z)), '?')
                    where = {'str': 'string-literal', 'lc': 'comment', 'bc': 'block-comment', 'code': 'code', 'rstr': 'raw-string', 'slash': 'code'}[e[0]]
                    findings.append(('c14/%s/in-%s/token-structure-depends-on-text' % (site, where),
                                     'text from %s changes the token structure of the output: %r lexes to %s, the reference alternative to %s' % (site, tx[:60], (RL.erase_state(st2), toks)[1] or (RL.erase_state(st2),), ref[1] or (ref[0],)),
                                     g.z))
        # rule C: a piece that lies entirely inside a string literal must decode to the original text
        if isinstance(piece, SymVal):
            for g, st, tx, st2, toks, gp in results:
                if st == ('str', False) and st2 == ('str', False) and not toks and gp.cube and len(gp.cube) == 1:
                    (name, idxs), = gp.cube.items()
                    if name in info.literal_sites and len(idxs) == 1:
                        orig = site_of[name].options[next(iter(idxs))]
                        if name in ('site_location', 'site_soap_action'):
                            orig = native.url_parse(orig)
                        dec = RL.unescape(tx)
                        if dec != orig:
                            findings.append(('c14/%s/literal-value-differs' % name, 'the literal holding %r evaluates to %r' % (orig, dec), g.z))
        # new state
        outs = {}
        order = []
        for g, st, tx, st2, toks, gp in results:
            if st2 not in outs:
                outs[st2] = []
                order.append(st2)
            outs[st2].append(g)
        state = order[0] if len(order) == 1 else SymVal([(g_or(outs[k]), k) for k in order])
    return findings


def concrete_token_stream(text):
    k = text.find('\npub mod error {')
    if k >= 0:
        text = text[:k]
    st, toks = RL.lex(RL.CODE, text)
    return toks, st


def c14(tier):
    def body(s):
        ctx = s.ctx
        import e1props
        s.parts['kani_keyword_table'] = e1props.c14_kw_part(s.rep, tier)
        s.functions.update(n for n in ctx.bodies if re.search(r'write_xml|write_(complex|simple|type_alias|soap|async|check)|rename_keywords|as_field_name|xml_name_to_rust_name|make_abbreviated', n) and '::tests::' not in n)
        for sc, info in F.inject_all(tier):
            s.scenarios += 1
            res = sc.explore(ctx)
            s.count(res)
            if len(res) > 1:
                s.nontrivial += 1
            stats = dict(scenario=sc.name, paths=len(res), ok=0, err=0, panic=0, sites={x.name: x.options for x in sc.selectors}, violations=[])
            # benign configurations: every site at its first (harmless) value; a site may declare further harmless values
            # (an absent facet): an invalid value may legitimately make zeep drop the item
            configs = [{}]
            for site, idxs in getattr(info, 'also_benign', {}).items():
                if any(x.name == site for x in sc.selectors):
                    configs += [{site: i} for i in idxs]
            benign_streams = []
            btxt = None
            for cfg in configs:
                bs = z3.Solver()
                bs.add(sc.domain)
                bs.add(*[x.var == cfg.get(x.name, 0) for x in sc.selectors])
                bs.check()
                brc, btxt_, _ = H.native_generate(ctx, sc.concrete_files(bs.model()), sc.start)
                if btxt_:
                    benign_streams.append(concrete_token_stream(btxt_)[0])
                    btxt = btxt or btxt_
            btoks = benign_streams[0] if benign_streams else None
            reported = set()
            for m, out in res:
                if out[0] != 'ok':
                    stats['panic'] += 1
                    continue
                if out[1][0] != 'ok':
                    stats['err'] += 1
                    continue
                stats['ok'] += 1
                fnd = lex_rope_symbolic(m, out[1][1].rope, info)
                if btoks is not None:
                    # cross-path half of the differential: with every site that is still symbolic on this path set to its benign
                    # value, the token structure must be the benign one (rule A covers the other values of those sites)
                    free = [x for x in sc.selectors if len(m.allowed.get(x.name, set(range(len(x.options))))) != 1]
                    pm = sc.solve(m, z3.And(*[x.var == 0 for x in free])) if free else sc.solve(m)
                    if pm is not None:
                        from xmltree import concretize as _conc
                        ptxt = ''.join(_conc(p_, pm, None) if isinstance(p_, SymVal) else p_ for p_ in out[1][1].rope)
                        ptoks, pend = concrete_token_stream(ptxt)
                        pp = sc.params(pm)
                        sites = [x.name for x in sc.selectors if pp[x.name] != x.options[0]]
                        if (ptoks not in benign_streams or pend != RL.CODE) and len(sites) == 1:
                            k = 0
                            while k < min(len(ptoks), len(btoks)) and ptoks[k] == btoks[k]:
                                k += 1
                            cond = z3.And(*[x.var == x.options.index(pp[x.name]) for x in sc.selectors])
                            fnd = fnd + [('c14/%s/token-structure-differs-from-benign' % sites[0],
                                          'with %s the output lexes differently from the output for benign text: first difference at token %d: %s vs %s' % (
                                              {x: pp[x] for x in sites}, k, ptoks[k:k + 6], btoks[k:k + 6]), cond)]
                for key, what, cond in fnd:
                    if key in reported:
                        continue
                    model = sc.solve(m, cond)
                    if model is None:
                        continue
                    reported.add(key)
                    stats['violations'].append(key)
                    params = sc.params(model)
                    rc, txt, log_, files = sc.native(ctx, model)
                    s.replays += 1
                    rdir = save_replay('C14', re.sub(r'\W+', '_', key)[:90], dict(list(files.items()) + [
                        ('finding.txt', '%s\n%s\nsite values: %s\n' % (key, what, params)), ('native_output.rs', txt or ''), ('benign_output.rs', btxt or '')]))
                    if rc != 0 or txt is None:
                        s.rep.inconc('ENCODING-MISMATCH %s: native zeep fails (rc=%s) on %s' % (key, rc, params))
                        continue
                    toks, endst = concrete_token_stream(txt)
                    site = key.split('/')[1].split('+')[0]
                    if key.endswith('literal-value-differs'):
                        orig = params[site]
                        if site in ('site_location', 'site_soap_action'):
                            orig = native.url_parse(orig)
                        # the literal exists in the native output with the same raw text; decode it there
                        lits = re.findall(r'"((?:[^"\\]|\\.)*)"', txt)
                        reproduced = orig not in [RL.unescape(l) for l in lits]
                    else:
                        reproduced = (toks not in benign_streams) or endst != RL.CODE
                    if reproduced:
                        s.rep.violation(key, what + ' [%s=%r]' % (site, params.get(site)), rdir)
                    else:
                        s.rep.inconc('ENCODING-MISMATCH %s: native output for %s lexes like the benign output' % (key, {site: params.get(site)}))
            s.samples.append(stats)
    return run_e2('C14', tier, body, bounds='(E1) every identifier-shaped string of 1..10 bytes through rename_keywords. (E2) 14 injection sites (type / member / attribute / simple type / element / '
                  'operation / service / header part names, enumeration and facet values, documentation, namespace URI, address, soapAction), each symbolic over 4-8 adversarial strings (quotes, '
                  'backslashes, braces, newline, CR, comment terminator, code payload, keywords, non-ASCII letters); a Rust lexer is run over the emitted rope with a symbolic state and z3 decides '
                  'whether the erased token structure or a literal value depends on the text. Outside: strings not in the domains (finite domain, stated), rustc itself.',
                  extra_assumptions=['the Rust lexer in smi/rustlex.py (strings, raw strings, comments, identifiers, keywords) is trusted; the verbatim helper module is constant text and not lexed'])
