"""writes /verif/MANIFEST.json from the table below (single source of truth for the interface)"""
import json, os
V = os.path.dirname(os.path.dirname(os.path.abspath(__file__)))

BASELINE = ("cd /repo && cargo nextest run --workspace --no-fail-fast --test-threads 8 --offline || "
            "(cd /repo && cargo test --workspace --no-fail-fast --offline)")

CHECKS = {
    'C06': dict(engine='E1-kani', cat='model_checking', design='4/C06',
                technique='bounded model checking (Kani/CBMC, SAT) of the compiled restrictions module against an i128 reference predicate',
                text='Kani/CBMC decides, for every value of each carrier at full width and every combination of the four numeric facets '
                     '(any Option<i32>), and for every UTF-8/numeric string up to the stated byte length, that check_restrictions(...).is_ok() '
                     'equals the XSD reference predicate; counterexamples are replayed natively by concrete playback. Right level: the code is '
                     'a leaf kernel of integer/byte logic where the wrong inputs are single boundary values.',
                note='trusted: Kani/CBMC/cadical, the reference predicate in kani/c06.rs; stub alloc::fmt::format; strings bounded (<=6 / <=11 bytes), Vec<=3'),
    'C19': dict(engine='E1-kani', cat='model_checking', design='4/C19',
                technique='bounded model checking (Kani/CBMC) of MultiRef<P> for a probe type with arbitrary scripted behaviour',
                text='For a probe type whose trait methods have arbitrary (solver-chosen) results, every MultiRef<P> trait method is shown to make '
                     'exactly one call of the same method on the wrapped value with the same arguments (pointer identity) and to hand its result '
                     'back unchanged; clones share the Arc. Forwarding for an arbitrary implementation implies transparency for yaserde-derived ones.',
                note='trusted: Kani/CBMC; yaserde derive output itself is outside; Serializer/Deserializer are never dereferenced; Debug forwarding not harnessed'),
    'C15': dict(engine='E2-smi', cat='model_checking', design='4/C15',
                technique='symbolic execution of the MIR of write_xml (own interpreter + z3) with a symbolic sink-failure index',
                text='RustDocument::write_xml and every emitter it reaches are executed symbolically from their MIR into a sink that fails at a '
                     'symbolic write-call index k; z3 decides the feasibility of each k, one exploration covers every failure point of each corpus '
                     'document; every path with an injected failure must end in Err(WriterError::Io), never a panic or Ok. Violations are replayed on '
                     'the natively built zeep-lib with a failing io::Write.',
                note='trusted: SMI environment models (validated byte-for-byte against the native binary on 9 repository inputs per run), z3; corpus documents bound the claim'),
    'C02': dict(engine='E2-smi', cat='model_checking', design='4/C02',
                technique='symbolic execution of reader + emitter MIR over parametrised schemas; z3 decides each oracle obligation per path; native replay',
                text='The MIR of the XSD reader (RustNode/ComplexProps/SimpleProps/ElementProps/Field::try_from_node) and of the struct emitters is executed '
                     'symbolically on schema families whose member name, type (27 builtins + user types), minOccurs/maxOccurs (on the member and on the '
                     'enclosing particle), attribute use and declaration order are symbolic selectors; for every path z3 decides whether some assignment '
                     'makes an emitted struct differ from the reference model (exactly one PascalCase struct per component, one field per declared member in '
                     'order, snake_case raw-escaped identifier, T / Option<T> / Vec<T> with T from the pinned table). Families also cover type / element names that PascalCase changes or that '
                     'look like builtins, and content models that are not a plain sequence (choice or xs:all as the content model, annotations among the particles). Models are replayed on the native binary. '
                     'The thorough tier adds the Kani harness of the builtin table over all byte strings per length.',
                note='trusted: SMI environment models (validated against the native binary each run), the reference model in smi/oracles.py; bounded to the scenario shapes (<=4 members, one nesting level); two known findings (member after a nested sequence, annotation among the particles of a sequence)'),
    'C11': dict(engine='E2-smi', cat='model_checking', design='4/C11',
                technique='symbolic execution of the import-following reader MIR over symbolic import graphs; reachability as a z3 formula; native replay',
                text='One symbolic exploration of XmlReader::read_xml / read_xml_internal / read_xsd / process_import / RustDocument::extend covers every import '
                     'multigraph over the stated number of files (target of every import slot and the start file are symbolic). Per path z3 decides whether some '
                     'graph makes the emitted components differ from graph reachability (each reachable file once, nothing unreachable, no file parsed that is '
                     'unreachable), and non-termination shows as bounded-depth divergence; counterexample graphs are replayed on the native binary. The file-collection half (utils.rs) is '
                     'explored through the CLI over a model of the file system: an unreachable sibling that is absent / a schema / malformed / not XML / unreadable must not change exit status or bytes.',
                note='trusted: SMI environment models; graphs bounded to 3 files x 2 slots (quick); thorough adds 4 x 1, 2 x 3 and 3 x 2 with missing targets; divergence bound 60 frames'),
    'C12': dict(engine='E2-smi', cat='model_checking', design='4/C12',
                technique='symbolic execution of reader + emitter MIR with symbolic HashMap iteration orders, file registration orders and call histories',
                text='Every HashMap the interpreted code creates iterates in a symbolic permutation (its documented contract); one exploration covers all '
                     'orders and all outputs must be equal. A second exploration makes the registration order of a 3-file set and the number of read_xml calls on '
                     'the same FilesToRead symbolic. z3 decides which permutations are feasible; differing outputs are replayed natively (fresh processes / driver).',
                note='trusted: SMI environment models (HashMap = association list + arbitrary order, BTreeMap = sorted); maps <= 3 entries; hash-seed replays are statistical'),
    'C08': dict(engine='E2-smi', cat='model_checking', design='4/C08',
                technique='symbolic execution of reader + emitter MIR over extension forests with symbolic declaration order; z3 per-path oracle queries; native replay',
                text='Extension chains (depth 1..2, empty extension, attributes inside xs:extension and on the base, sequence+choice content, a decoy type whose local '
                     'names equal the base names, global elements named like the base types, base in another namespace/file, a chain over three files, a diamond import, equal local '
                     'names in two namespaces) are explored with the declaration order as a symbolic permutation; z3 decides '
                     'per path whether the derived struct differs from base members followed by own members (names, kinds, types, declaring namespace).',
                note='trusted: SMI environment models, reference model of xs:extension in lib/e2props.py; depth <= 2, one to four files'),
    'C09': dict(engine='E2-smi', cat='model_checking', design='4/C09',
                technique='symbolic execution of reader + emitter MIR over name-colliding schemas with symbolic reference prefixes and declaration order',
                text='Two namespaces define complexTypes of the same local name with different members; the prefix of type= and base= references and the '
                     'declaration order are symbolic, one prefix is bound to different namespaces in different files, the target namespace gets its only prefix on a nested element, and a '
                     'root prefix is bound again on a nested element. z3 decides per path whether a field type '
                     'or an inherited member list belongs to the namespace the prefix denotes.',
                note='trusted: SMI environment models; two or three namespaces / files; complexType references only (message parts: C05); one known finding (prefix bound again on a nested element)'),
    'C03': dict(engine='E2-smi', cat='other', design='4/C03',
                technique='symbolic execution of reader + emitter MIR; z3 decides the annotation obligations (prefix bound in the containing struct, unqualified attributes, rename) per path',
                text='Claimed at annotation level only: the XML itself is produced by yaserde/xml-rs at run time, out of reach of both engines. zeep determines the wire format only '
                     'through the yaserde attributes it emits; SMI runs reader and emitters symbolically over six schema families (incl. ref= to another namespace with symbolic '
                     'adversarial URIs, inheritance across namespaces) and z3 decides per path whether some assignment violates: rename = declared name; element prefix bound, in '
                     'the containing struct\'s namespaces map, to the declaring namespace; attributes unqualified; struct-level prefix/rename/namespaces name the component.',
                note='trusted: yaserde 0.12 attribute semantics; SMI environment models; lexical forms, escaping, occurrence on the wire are outside'),
    'C10': dict(engine='E2-smi', cat='model_checking', design='4/C10',
                technique='symbolic execution of namespace registration / abbreviation / merge MIR with symbolic adversarial URIs; z3 per-path injectivity queries; native replay',
                text='Four namespace URIs (target of the start file, referenced-only xmlns, target of an imported file, nested xmlns) range symbolically over adversarial URIs; the MIR of '
                     'add_namespace_reference, switch_to_target_namespace, make_abbreviated_namespace, RustDocument::extend and the module/attribute emitters is executed and z3 '
                     'decides per path whether prefix<->URI<->module is a bijection over everything emitted, each module is declared once and every field prefix is declared.',
                note='trusted: SMI environment models; <= 4 namespaces over 5 (quick) / 8 (thorough) URIs; three known findings (cross-file abbreviation) are keyed by assertion + origin class'),
    'C05': dict(engine='E2-smi', cat='model_checking', design='4/C05',
                technique='symbolic execution of the WSDL reader + binding/service emitter MIR over parametrised WSDLs; z3 decides identifier agreement and envelope structure per path',
                text='The MIR of SoapMessage/SoapPort/SoapBinding/SoapService::try_from_node, write_soap_operation, write_async_soap_call and SoapService::write_xml is executed on '
                     'WSDLs whose operation name style, body element name style, part name, parts= presence, output presence, service name and number of bound header parts are symbolic. '
                     'Per path z3 decides whether some assignment breaks: one snake_case method per operation; its request/response types are envelope structs the output defines; the '
                     'Body holds exactly the element of the bound part (rename = element name, type = the struct generated for it, defined in its module); one Header member per bound '
                     'header part under the element\'s own name; response envelope iff output; address literal = soap:address.',
                note='trusted: SMI environment models; serialization itself (yaserde) is outside; two operations, <= 2 header parts; single-part bodies when parts= is absent'),
    'C07': dict(engine='E2-smi', cat='model_checking', design='4/C07',
                technique='symbolic execution (own MIR interpreter + z3) of the check code zeep generates, of facet extraction + constructor/delegation emitters and of the async helper coroutine MIR; z3 decides every obligation per path',
                text='(a) zeep\'s output for a facet fixture (length facets, enumeration, integer bounds on text, a simple type derived from a restricted simple type, optional / repeated / '
                     'attribute members, depth 2) is compiled, its MIR dumped and Outer::check_restrictions(None) executed with symbolic leaf values at one or two positions; z3 decides per '
                     'path whether the Ok/Err outcome differs from the facets the schema declares (own and inherited); counterexamples and all single-position cases are re-run natively. '
                     '(b) A restricted simple type whose supported facets (each absent or one of several values incl. negative and i32 extremes, as child elements or attributes of '
                     'xs:restriction), enumerations and base are symbolic is pushed through build_restrictions / Restrictions::write_xml / write_check_restrictions_header: z3 decides per '
                     'path whether the emitted constructor differs from the declared facet set; every struct and envelope (incl. Header/Body) must delegate the check to each field once and '
                     'propagate the error. (c) The coroutine MIR of both send helpers is explored over symbolic stub outcomes: the restriction check is the first action and its failure '
                     'is returned before serialization or any reqwest call. Thorough adds Kani on the generated code. Facet semantics on integer carriers are C06 (Kani).',
                note='trusted: SMI environment models, reqwest/yaserde stubs; leaf values range over 21 strings per position (finite domain, stated in the evidence)'),
    'C16': dict(engine='E2-smi', cat='other', design='4/C16',
                technique='symbolic execution of the async helpers\' coroutine MIR over contract-constrained nondeterministic stubs of reqwest / yaserde (z3 Booleans for every outcome)',
                text='Claimed for zeep\'s side of the exchange only: both helpers (given client / fresh client) are executed from their coroutine MIR; credentials, the result of each stage '
                     '(restriction check, serialization, send, status class, body text, deserialization) and Pending polls are symbolic. On every path: one post+send iff check and '
                     'serialization succeeded, to the given address with the serialization as body, basic_auth iff credentials, Ok only if every stage succeeded and the status is not 4xx/5xx, '
                     'Ok value = what from_str returned for the reply body. Generated method bodies are checked to forward client, address, credentials and request.',
                note='trusted: reqwest semantics (one send = one POST, redirects, TLS, transport errors surface as Err), yaserde; stubs have no native replay'),
    'C17': dict(engine='E2-smi', cat='other', design='4/C17',
                technique='symbolic execution of the MIR of main and read_input_file_and_xsd_files_at_path over models of clap, std::path and std::fs; solver-concretised configuration selectors; native replay',
                text='Claimed for the ordering / derivation logic of the CLI: path spelling, --output, pre-existing output and the stage at which generation fails are selectors; the MIR of '
                     'zeep::main and the directory scan runs over a Path algebra per std\'s component semantics and a file-system map whose create truncates. Assertions: same bytes as the '
                     'library for every spelling, at --output or <input>.rs, no stale tail; on failure a non-zero outcome and an untouched pre-existing output. Findings are replayed with the '
                     'native binary in a scratch directory.',
                note='trusted: models of clap / std::path / std::fs in lib/e2props.py; real OS behaviour (permissions, symlinks, non-UTF-8 names) is outside'),
    'C13': dict(engine='E2-smi', cat='model_checking', design='4/C13',
                technique='symbolic execution of reader + emitter MIR in departure mode: every attribute / element optional, QNames retargetable, bounded number of departures; panics and divergence are outcomes',
                text='On documents that exercise every reader branch, each attribute and each non-root element may be missing, each attribute value may be empty or blank, and each QName-valued attribute may dangle or point at its own '
                     'component (at most 1 departure at a time in the quick tier, 2 in the thorough tier); the interpreter treats unwrap/expect/assert/index/overflow panics and call-depth '
                     'divergence as path outcomes and z3 yields the departure set of every such path, which is replayed on the native binary. Also: unregistered start file, a message part '
                     'naming a non-element component. Import cycles are decided by C11.',
                note='trusted: SMI environment models; roxmltree itself (only "parse fails" is modelled for malformed text); inputs are departures from three (quick) / four base documents; time is counted in MIR steps, not seconds'),
    'C14': dict(engine='E1-kani + E2-smi', cat='model_checking', design='4/C14',
                technique='Kani/CBMC on rename_keywords over all identifier strings per length; symbolic execution of the emitters with a Rust lexer run over the symbolic output (z3 decides token-structure independence)',
                text='(E1) rename_keywords is decided for every identifier-shaped string of 1..10 bytes against the edition-2024 keyword list. (E2) Fourteen places where schema text flows into '
                     'the output are symbolic over adversarial strings; reader and emitters run symbolically and a Rust lexer is run over the emitted rope with a symbolic state: z3 decides '
                     'whether the erased token structure (string literals, comments and identifier spellings erased; keywords and illegal raw identifiers kept) or the value of a literal depends '
                     'on the text, within a path (all alternatives lex alike) and across paths (each path lexes like the benign output). Findings are replayed on the native binary.',
                note='trusted: smi/rustlex.py, SMI environment models, Kani/CBMC; string domains are finite (4-8 adversarial values per site); rustc itself is not run'),
}

NA = {
    'C01': 'the deciding oracle is rustc (parser, name resolution, type checker over the whole emitted file and six crates): no SMT encoding within reach; generator-side agreements are obligations of C02/C05/C10/C14',
    'C04': 'deserialization and round-trip are executed by yaserde derive expansion and xml-rs at run time (fmt/dyn/heap); CBMC cannot get through it and the MIR interpreter covers zeep, not yaserde',
    'C18': 'Send/Sync are auto-trait facts computed by rustc from the coroutine layout, not properties of executions a bounded symbolic run can falsify',
}
PENDING = []


def main():
    checks = []
    for pid, c in CHECKS.items():
        checks.append(dict(
            property_id=pid,
            quick_cmd='./check %s --tier quick' % pid,
            thorough_cmd='./check %s --tier thorough' % pid,
            evidence_file='/verif/evidence/%s.json' % pid,
            replay_cmd_template='./check %s --replay {path}' % pid,
            engine=c['engine'],
            level_claimed=dict(category=c['cat'], text=c['text'], design_ref=c['design']),
            level_note=c['note'],
            technique=c['technique'],
        ))
    na = [dict(property_id=k, reason=v) for k, v in NA.items()]
    for p in PENDING:
        if p not in CHECKS:
            na.append(dict(property_id=p, reason='check not built yet in this round (designed in DESIGN.md section 4); not claimed until its check exists'))
    m = dict(
        version=1,
        setup_cmd='./check setup',
        hooks=dict(guard='zeep_verif', enable='none needed: Kani mirror crate includes /repo sources by #[path]; MIR is dumped with cargo +nightly rustc -Zunpretty=mir into /verif/build',
                   baseline_off_cmd=BASELINE, source_commits=[], add_only=True),
        engines=[
            dict(name='E1-kani', path='/verif/lib/e1.py', serves_properties=[p for p, c in CHECKS.items() if 'E1' in c['engine']],
                 kind_free_text='Kani 0.68 / CBMC 6.11 harness crate mirroring zeep-lib by #[path]'),
            dict(name='E2-smi', path='/verif/smi', serves_properties=[p for p, c in CHECKS.items() if 'E2' in c['engine']],
                 kind_free_text='symbolic interpreter for rustc MIR (Python + z3), regenerated from /repo on every run'),
        ],
        checks=checks,
        not_applicable=sorted(na, key=lambda x: x['property_id']),
        notes='exit 0 held / known findings only; 1 VIOLATION; 2 inconclusive (timeout, OOM, non-reproducing model); 3 unsupported MIR construct',
    )
    json.dump(m, open(os.path.join(V, 'MANIFEST.json'), 'w'), indent=1)


if __name__ == '__main__':
    main()
