"""./check <property> [--tier quick|thorough] [--replay path]"""
import os, sys, time, traceback
sys.path.insert(0, os.path.dirname(os.path.abspath(__file__)))
sys.path.insert(0, os.path.join(os.path.dirname(os.path.dirname(os.path.abspath(__file__))), 'smi'))
from common import *


def main():
    args = sys.argv[1:]
    if not args:
        print('usage: check <Cxx|setup> [--tier quick|thorough] [--replay path]')
        return 64
    prop = args[0]
    tier = tier_from_env()
    replay = None
    i = 1
    while i < len(args):
        if args[i] == '--tier':
            tier = args[i + 1]; i += 2
        elif args[i] == '--replay':
            replay = args[i + 1]; i += 2
        else:
            i += 1
    ensure_dirs()
    if prop == 'setup':
        import setup
        return setup.main()
    import props
    fn = props.REGISTRY.get(prop)
    if fn is None:
        print('unknown property', prop)
        return 64
    if replay:
        return props.replay(prop, replay)
    try:
        return fn(tier)
    except Exception:
        traceback.print_exc()
        print('INCONCLUSIVE property=%s internal error of the checker' % prop)
        return 2


if __name__ == '__main__':
    sys.exit(main())
