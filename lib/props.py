"""property registry"""
import os
import e1props
import e2props


def replay(prop, path):
    """print what a replay bundle holds and re-run its native reproduction when it has one"""
    for f in sorted(os.listdir(path)):
        print('==', f)
        try:
            print(open(os.path.join(path, f)).read()[:4000])
        except Exception as e:
            print(e)
    return 0


REGISTRY = {
    'C06': e1props.c06,
    'C19': e1props.c19,
    'C15': e2props.c15,
    'C02': e2props.c02,
    'C11': e2props.c11,
    'C14': e2props.c14,
    'C13': e2props.c13,
    'C17': e2props.c17,
    'C07': e2props.c07,
    'C16': e2props.c16,
    'C05': e2props.c05,
    'C03': e2props.c03,
    'C10': e2props.c10,
    'C09': e2props.c09,
    'C08': e2props.c08,
    'C12': e2props.c12,
}
