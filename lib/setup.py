"""setup: warm the build caches (Kani target dir); everything is re-derived from /repo by the checks anyway"""
import os, sys
from common import *
import e1, e1props


def main():
    ensure_dirs()
    with Lock('kani'):
        crate = e1.gen_crate(['c19'])
        e1props.gen_tables(crate)
        res, out, rc, wall = e1.run_harnesses('c19', ['c19_default_clone_deref'], jobs=2, timeout=1500)
        print('kani warm-up: rc=%s %.0fs %s' % (rc, wall, res['c19_default_clone_deref']['status']))
    return 0
