"""setup: warm the build caches (Kani target dir, native zeep / helper / driver, MIR dump). Every check re-derives
what depends on /repo from the working tree; this only saves time."""
import os, sys
from common import *
sys.path.insert(0, os.path.join(VERIF, 'smi'))


def main():
    ensure_dirs()
    import e1, e1props, native
    rc = 0
    try:
        print('helper:', native.build_helper())
        print('zeep  :', native.build_zeep())
        print('driver:', native.build_driver())
        print('mir   :', native.dump_mir())
        import harness, gencode
        ctx = harness.context()
        b, work, text = gencode.generate_and_dump(os.path.join(VERIF, 'smi/corpus/facets2.xsd'), ctx)
        fm = gencode.FixtureModel(os.path.join(VERIF, 'smi/corpus/facets2.xsd'))
        st = gencode.generated_structs(text)
        print('generated-code driver:', gencode.native_results(work, 'Outer', st, [gencode.Builder(fm, st).inst('Outer', {})]))
    except Exception as e:
        print('native warm-up failed:', str(e)[-1500:])
        rc = 1
    with Lock('kani'):
        crate = e1.gen_crate(['c19'])
        e1props.gen_tables(crate)
        res, out, krc, wall = e1.run_harnesses('c19', ['c19_default_clone_deref'], jobs=2, timeout=1800)
        print('kani warm-up: rc=%s %.0fs %s' % (krc, wall, res['c19_default_clone_deref']['status']))
        if res['c19_default_clone_deref']['status'] != 'SUCCESSFUL':
            print(out[-1500:])
            rc = 1
    return rc
