//! Minimal stand-in for roxmltree 0.20: same API subset that zeep-lib uses, but documents are
//! built directly (no text parsing).
use std::fmt;

#[derive(Debug)]
pub struct Error;
impl fmt::Display for Error {
    fn fmt(&self, f: &mut fmt::Formatter<'_>) -> fmt::Result { f.write_str("xml error") }
}
impl std::error::Error for Error {}

#[derive(Clone, Copy, PartialEq, Eq, Debug)]
pub enum Kind { Root, Element, Text, Comment }

pub struct Namespace<'input> { pub name: Option<&'input str>, pub uri: &'input str }
impl<'input> Namespace<'input> {
    pub fn name(&self) -> Option<&'input str> { self.name }
    pub fn uri(&self) -> &'input str { self.uri }
}

pub struct NodeData<'input> {
    pub kind: Kind,
    pub tag: &'input str,
    pub attrs: Vec<(&'input str, &'input str)>,
    pub nss: Vec<Namespace<'input>>,
    pub parent: Option<usize>,
    pub children: Vec<usize>,
    pub text: Option<&'input str>,
}

pub struct Document<'input> { pub nodes: Vec<NodeData<'input>> }

pub static mut PARSE_HOOK: Option<fn(&str) -> Option<Document<'static>>> = None;

impl<'input> Document<'input> {
    pub fn parse(text: &'input str) -> Result<Document<'input>, Error> {
        let hook = unsafe { PARSE_HOOK };
        match hook.and_then(|h| h(text)) { Some(d) => Ok(d), None => Err(Error) }
    }
    pub fn root<'a>(&'a self) -> Node<'a, 'input> { Node { id: 0, doc: self } }
    pub fn root_element<'a>(&'a self) -> Node<'a, 'input> {
        let r = self.root();
        r.children().find(|n| n.is_element()).expect("no root element")
    }
    /// builder: new document holding only the root node
    pub fn new_empty() -> Self {
        Document { nodes: vec![NodeData { kind: Kind::Root, tag: "", attrs: vec![], nss: vec![], parent: None, children: vec![], text: None }] }
    }
    pub fn add(&mut self, parent: usize, kind: Kind, tag: &'input str, attrs: Vec<(&'input str, &'input str)>) -> usize {
        let id = self.nodes.len();
        self.nodes.push(NodeData { kind, tag, attrs, nss: vec![], parent: Some(parent), children: vec![], text: None });
        self.nodes[parent].children.push(id);
        id
    }
    pub fn node<'a>(&'a self, id: usize) -> Node<'a, 'input> { Node { id, doc: self } }
}

pub struct ExpandedName<'a> { name: &'a str }
impl<'a> ExpandedName<'a> { pub fn name(&self) -> &'a str { self.name } }

#[derive(Clone, Copy)]
pub struct Node<'a, 'input: 'a> { id: usize, doc: &'a Document<'input> }

impl<'a, 'input: 'a> PartialEq for Node<'a, 'input> {
    fn eq(&self, o: &Self) -> bool { self.id == o.id && std::ptr::eq(self.doc, o.doc) }
}
impl<'a, 'input: 'a> fmt::Debug for Node<'a, 'input> {
    fn fmt(&self, f: &mut fmt::Formatter<'_>) -> fmt::Result { f.write_str("Node") }
}

impl<'a, 'input: 'a> Node<'a, 'input> {
    fn d(&self) -> &'a NodeData<'input> { &self.doc.nodes[self.id] }
    pub fn is_element(&self) -> bool { self.d().kind == Kind::Element }
    pub fn tag_name(&self) -> ExpandedName<'a> { ExpandedName { name: self.d().tag } }
    pub fn attribute(&self, name: &str) -> Option<&'a str> {
        for (k, v) in self.d().attrs.iter() { if *k == name { return Some(*v); } }
        None
    }
    pub fn parent(&self) -> Option<Node<'a, 'input>> { self.d().parent.map(|id| Node { id, doc: self.doc }) }
    pub fn children(&self) -> Children<'a, 'input> { Children { doc: self.doc, ids: &self.d().children, front: 0, back: self.d().children.len() } }
    pub fn descendants(&self) -> Descendants<'a, 'input> { Descendants { doc: self.doc, next: self.id, end: self.subtree_end() } }
    fn subtree_end(&self) -> usize {
        // nodes are stored in document order; subtree = contiguous range
        let mut last = self.id;
        loop {
            match self.doc.nodes[last].children.last() { Some(c) => last = *c, None => break }
        }
        last + 1
    }
    pub fn text(&self) -> Option<&'a str> {
        match self.d().kind {
            Kind::Element => self.d().children.first().and_then(|c| { let n = &self.doc.nodes[*c]; if n.kind == Kind::Text { n.text } else { None } }),
            Kind::Text | Kind::Comment => self.d().text,
            Kind::Root => None,
        }
    }
    pub fn namespaces(&self) -> std::slice::Iter<'a, Namespace<'input>> { self.d().nss.iter() }
}

pub struct Children<'a, 'input: 'a> { doc: &'a Document<'input>, ids: &'a [usize], front: usize, back: usize }
impl<'a, 'input: 'a> Iterator for Children<'a, 'input> {
    type Item = Node<'a, 'input>;
    fn next(&mut self) -> Option<Self::Item> {
        if self.front < self.back { let id = self.ids[self.front]; self.front += 1; Some(Node { id, doc: self.doc }) } else { None }
    }
}
impl<'a, 'input: 'a> DoubleEndedIterator for Children<'a, 'input> {
    fn next_back(&mut self) -> Option<Self::Item> {
        if self.front < self.back { self.back -= 1; Some(Node { id: self.ids[self.back], doc: self.doc }) } else { None }
    }
}
pub struct Descendants<'a, 'input: 'a> { doc: &'a Document<'input>, next: usize, end: usize }
impl<'a, 'input: 'a> Iterator for Descendants<'a, 'input> {
    type Item = Node<'a, 'input>;
    fn next(&mut self) -> Option<Self::Item> {
        if self.next < self.end { let id = self.next; self.next += 1; Some(Node { id, doc: self.doc }) } else { None }
    }
}
