use crate::model::field::{Field, RustFieldType};
use crate::model::doc::RustDocument;
use crate::model::TryFromNode;
use roxmltree::{Document, Kind};

pub fn stub_format(_args: std::fmt::Arguments<'_>) -> String { String::new() }

#[kani::proof]
#[kani::unwind(12)]
#[kani::stub(alloc::fmt::format, stub_format)]
fn q1_field_concrete() {
    let mut rdoc = RustDocument::empty();
    let mut d = Document::new_empty();
    let seq = d.add(0, Kind::Element, "sequence", vec![("minOccurs", "0")]);
    let el = d.add(seq, Kind::Element, "element", vec![("name", "Id"), ("type", "long"), ("maxOccurs", "unbounded")]);
    let f = Field::try_from_node(d.node(el), &mut rdoc).unwrap();
    assert!(f.rust_type == RustFieldType::I64);
    assert!(f.is_optional);
    assert!(f.is_vec);
    std::mem::forget(f); std::mem::forget(rdoc);
}

fn sym_bytes<const N: usize>() -> ([u8; N], usize) {
    let b: [u8; N] = kani::any();
    let len: usize = kani::any();
    kani::assume(len <= N);
    (b, len)
}
fn as_s<'a, const N: usize>(b: &'a ([u8; N], usize)) -> &'a str {
    for i in 0..N { kani::assume(b.0[i] >= 0x20 && b.0[i] < 0x7f); }
    unsafe { std::str::from_utf8_unchecked(&b.0[..b.1]) }
}

#[kani::proof]
#[kani::unwind(12)]
#[kani::stub(alloc::fmt::format, stub_format)]
fn q2_field_symvals() {
    let mut rdoc = RustDocument::empty();
    let mut d = Document::new_empty();
    let (a, b, c, e) = (sym_bytes::<9>(), sym_bytes::<9>(), sym_bytes::<9>(), sym_bytes::<9>());
    let (seq_min, seq_max, el_min, el_max) = (as_s(&a), as_s(&b), as_s(&c), as_s(&e));
    let seq = d.add(0, Kind::Element, "sequence", vec![("minOccurs", seq_min), ("maxOccurs", seq_max)]);
    let el = d.add(seq, Kind::Element, "element", vec![("name", "Id"), ("type", "long"), ("minOccurs", el_min), ("maxOccurs", el_max)]);
    let f = Field::try_from_node(d.node(el), &mut rdoc).unwrap();
    let rep = |s: &str| s == "unbounded" || s == "2" || s == "3";
    assert!(f.rust_type == RustFieldType::I64);
    assert!(f.is_optional == (el_min == "0" || seq_min == "0"));
    assert!(f.is_vec == (rep(el_max) || rep(seq_max)));
    std::mem::forget(f); std::mem::forget(rdoc);
}
