//! Association-list model of std::collections::HashMap (API subset used by zeep-lib).
use std::borrow::Borrow;

pub struct HashMap<K, V> { pub entries: Vec<(K, V)> }

impl<K: PartialEq, V> HashMap<K, V> {
    pub fn new() -> Self { HashMap { entries: Vec::new() } }
    pub fn len(&self) -> usize { self.entries.len() }
    pub fn is_empty(&self) -> bool { self.entries.is_empty() }
    pub fn insert(&mut self, k: K, v: V) -> Option<V> {
        for e in self.entries.iter_mut() {
            if e.0 == k { return Some(std::mem::replace(&mut e.1, v)); }
        }
        self.entries.push((k, v));
        None
    }
    pub fn get<Q: ?Sized + PartialEq>(&self, k: &Q) -> Option<&V> where K: Borrow<Q> {
        for e in self.entries.iter() { if e.0.borrow() == k { return Some(&e.1); } }
        None
    }
    pub fn get_key_value<Q: ?Sized + PartialEq>(&self, k: &Q) -> Option<(&K, &V)> where K: Borrow<Q> {
        for e in self.entries.iter() { if e.0.borrow() == k { return Some((&e.0, &e.1)); } }
        None
    }
    pub fn contains_key<Q: ?Sized + PartialEq>(&self, k: &Q) -> bool where K: Borrow<Q> { self.get(k).is_some() }
    pub fn iter(&self) -> Iter<'_, K, V> { Iter { it: self.entries.iter() } }
    pub fn extend<I: IntoIterator<Item = (K, V)>>(&mut self, it: I) { for (k, v) in it { self.insert(k, v); } }
}
pub struct Iter<'a, K, V> { it: std::slice::Iter<'a, (K, V)> }
impl<'a, K, V> Iterator for Iter<'a, K, V> {
    type Item = (&'a K, &'a V);
    fn next(&mut self) -> Option<Self::Item> { self.it.next().map(|e| (&e.0, &e.1)) }
}
impl<'a, K: PartialEq, V> IntoIterator for &'a HashMap<K, V> {
    type Item = (&'a K, &'a V); type IntoIter = Iter<'a, K, V>;
    fn into_iter(self) -> Self::IntoIter { self.iter() }
}
impl<K, V> IntoIterator for HashMap<K, V> {
    type Item = (K, V); type IntoIter = std::vec::IntoIter<(K, V)>;
    fn into_iter(self) -> Self::IntoIter { self.entries.into_iter() }
}
impl<K: PartialEq, V, const N: usize> From<[(K, V); N]> for HashMap<K, V> {
    fn from(a: [(K, V); N]) -> Self { let mut m = HashMap::new(); for (k, v) in a { m.insert(k, v); } m }
}
impl<K: PartialEq, V> FromIterator<(K, V)> for HashMap<K, V> {
    fn from_iter<I: IntoIterator<Item = (K, V)>>(it: I) -> Self { let mut m = HashMap::new(); for (k, v) in it { m.insert(k, v); } m }
}
