#![allow(unused)]
#[path = "/tmp/c07/gen/f1.rs"]
pub mod generated;
#[cfg(kani)]
mod harness {
    use super::generated::*;
    use super::generated::restrictions::CheckRestrictions;
    use super::generated::mod_ord::*;
    fn sym_str<const N: usize>() -> String {
        let b: [u8; N] = kani::any();
        for i in 0..N { kani::assume((b[i] >= b'0' && b[i] <= b'9') || b[i] == b'a'); }
        unsafe { String::from_utf8_unchecked(b.to_vec()) }
    }
    pub fn stub_format(_a: std::fmt::Arguments<'_>) -> String { String::new() }
    #[kani::proof]
    #[kani::unwind(6)]
    #[kani::stub(alloc::fmt::format, stub_format)]
    fn c07_order_values() {
        let code = sym_str::<4>();
        let n1 = sym_str::<1>();
        let has_item: bool = kani::any();
        let item = sym_str::<1>();
        let c4 = code.as_bytes()[3]; // any 4-byte code violates maxLength=3
        let d1 = n1.as_bytes()[0]; let di = item.as_bytes()[0];
        let o = Order {
            item: if has_item { Some(Qty { value: item }) } else { None },
            code: Code { value: code },
            lines: vec![Line { n: Qty { value: n1 } }],
        };
        let r = o.check_restrictions(None);
        let got_err = r.is_err();
        std::mem::forget(r); std::mem::forget(o);
        let qty_ok = |d: u8| d >= b'1' && d <= b'9';   // 1..=9 (10 needs 2 chars)
        let want_err = true /* 4-char code */ || !qty_ok(d1) || (has_item && !qty_ok(di));
        assert!(got_err == want_err);
    }
}
