#!/bin/bash
# usage: run.sh <harness> <timeout_s> [extra kani args]
h=$1; t=$2; shift 2
cd /tmp/zp
start=$(date +%s)
( ulimit -v 24000000; timeout $t cargo kani -Z stubbing --harness "$h" "$@" > /tmp/zp/log.$h 2>&1 ); rc=$?
end=$(date +%s)
echo "harness=$h rc=$rc wall=$((end-start))s"
grep -E "^error|error\[|Stub:|VERIFICATION|Verification Time|of [0-9]+ failed|Failed Checks|unwinding assertion" /tmp/zp/log.$h | sort | uniq -c | head -30
pkill -f "cbmc.*$h" 2>/dev/null; true
