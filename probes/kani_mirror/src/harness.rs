use crate::hc::restrictions::{CheckRestrictions, Restrictions};
use crate::hc::multi_ref::MultiRef;
use crate::model::field::{as_rust_type, RustFieldType, OtherRustType};
use crate::model::doc::RustDocument;
use std::rc::Rc;

pub fn fixed_random_state() -> std::hash::RandomState {
    unsafe { std::mem::transmute::<(u64, u64), std::hash::RandomState>((1u64, 2u64)) }
}
pub fn stub_pascal(s: &str) -> String { let mut r = String::from("P:"); r.push_str(s); r }
pub fn stub_format(_a: std::fmt::Arguments<'_>) -> String { String::new() }

// ---- C02: builtin table, all strings <= 12 bytes without ':'
#[kani::proof]
#[kani::unwind(14)]
#[kani::stub(std::hash::RandomState::new, fixed_random_state)]
#[kani::stub(inflector::cases::pascalcase::to_pascal_case, stub_pascal)]
fn c02_builtin_table() {
    let doc = RustDocument::empty();
    let b: [u8; 12] = kani::any();
    let len: usize = 11;
    for i in 0..12 { kani::assume(b[i] >= 0x21 && b[i] < 0x7f && b[i] != b':'); }
    let s = unsafe { std::str::from_utf8_unchecked(&b[..len]) };
    let t = as_rust_type(s, &doc);
    let expect_long = s == "long";
    assert!((t == RustFieldType::I64) == expect_long);
    if s == "unsignedInt" { assert!(t == RustFieldType::U32); }
    if s == "integer" { assert!(t == RustFieldType::I32); }
    std::mem::forget(t); std::mem::forget(doc);
}

// ---- C06: string length facets over symbolic UTF-8 (alphabet: ASCII printable, é)
#[kani::proof]
#[kani::unwind(8)]
#[kani::stub(alloc::fmt::format, stub_format)]
fn c06_string_len() {
    let b: [u8; 6] = kani::any();
    let len: usize = 3;
    // well-formedness over the alphabet {ASCII printable, C3 A9}
    let mut i = 0; let mut chars = 0usize;
    while i < len {
        if b[i] == 0xC3 { kani::assume(i + 1 < len && b[i + 1] == 0xA9); i += 2; }
        else { kani::assume(b[i] >= 0x20 && b[i] < 0x7f); i += 1; }
        chars += 1;
    }
    let s = unsafe { String::from_utf8_unchecked(b[..len].to_vec()) };
    let minl: Option<usize> = if kani::any() { Some(kani::any()) } else { None };
    let maxl: Option<usize> = if kani::any() { Some(kani::any()) } else { None };
    let exl: Option<usize> = if kani::any() { Some(kani::any()) } else { None };
    let r = Rc::new(Restrictions { min_length: minl, max_length: maxl, length: exl, ..Default::default() });
    std::mem::forget(r.clone());
    let res = s.check_restrictions(Some(r));
    let got = res.is_ok();
    std::mem::forget(res); std::mem::forget(s);
    let want = minl.map_or(true, |m| chars >= m) && maxl.map_or(true, |m| chars <= m) && exl.map_or(true, |m| chars == m);
    assert!(got == want);
    kani::cover!(got); kani::cover!(!got);
}

// ---- C06: numeric text
#[kani::proof]
#[kani::unwind(8)]
#[kani::stub(alloc::fmt::format, stub_format)]
fn c06_string_num() {
    let b: [u8; 4] = kani::any();
    let len: usize = 3;
    for i in 0..4 { kani::assume((b[i] >= b'0' && b[i] <= b'9') || b[i] == b'-' || b[i] == b'+' || b[i] == b'a'); }
    let s = unsafe { String::from_utf8_unchecked(b[..len].to_vec()) };
    let mi: Option<i32> = if kani::any() { Some(kani::any()) } else { None };
    kani::assume(mi.is_some());
    let r = Rc::new(Restrictions { min_inclusive: mi, ..Default::default() });
    std::mem::forget(r.clone());
    let res = s.check_restrictions(Some(r));
    let got = res.is_ok();
    std::mem::forget(res);
    // reference: [+-]?[0-9]+ and value >= min
    let bytes = &b[..len];
    let (neg, digits) = match bytes.first() { Some(b'-') => (true, &bytes[1..]), Some(b'+') => (false, &bytes[1..]), _ => (false, bytes) };
    let mut ok = !digits.is_empty(); let mut v: i128 = 0;
    for d in digits { if *d < b'0' || *d > b'9' { ok = false; } else { v = v * 10 + (*d - b'0') as i128; } }
    if neg { v = -v; }
    let want = ok && v >= mi.unwrap() as i128;
    std::mem::forget(s);
    assert!(got == want);
}

// ---- C19: forwarding of check_restrictions and clone sharing with a probe type
static mut LOG: [u8; 8] = [0; 8];
static mut NLOG: usize = 0;
fn log(x: u8) { unsafe { if NLOG < 8 { LOG[NLOG] = x; } NLOG += 1; } }
#[derive(Clone, Debug, Default)]
struct Probe { tag: u8, verdict: bool }
static mut SEEN_RC: usize = 0;
impl CheckRestrictions for Probe {
    fn check_restrictions(&self, r: Option<Rc<Restrictions>>) -> crate::hc::error::SoapResult<()> {
        log(self.tag);
        unsafe { SEEN_RC = r.as_ref().map_or(0, |x| Rc::as_ptr(x) as usize); }
        std::mem::forget(r);
        if self.verdict { Ok(()) } else { Err(crate::hc::error::SoapError::Restriction(String::new())) }
    }
}
#[kani::proof]
#[kani::unwind(4)]
fn c19_check_and_clone() {
    let p = Probe { tag: kani::any(), verdict: kani::any() };
    let tag = p.tag; let verdict = p.verdict;
    let w = MultiRef::new(p);
    let r = Rc::new(Restrictions::default());
    std::mem::forget(r.clone());
    let addr = Rc::as_ptr(&r) as usize;
    let pass: bool = kani::any();
    let res = w.check_restrictions(if pass { Some(r) } else { std::mem::forget(r); None });
    let ok = res.is_ok(); std::mem::forget(res);
    assert!(ok == verdict);
    unsafe { assert!(NLOG == 1 && LOG[0] == tag); assert!(SEEN_RC == if pass { addr } else { 0 }); }
    let w2 = w.clone();
    assert!(std::sync::Arc::ptr_eq(&*w, &*w2));
    std::mem::forget(w); std::mem::forget(w2);
}
