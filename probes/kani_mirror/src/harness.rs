use crate::hc::restrictions::{CheckRestrictions, Restrictions};
use std::rc::Rc;

fn any_opt_i32() -> Option<i32> { if kani::any() { Some(kani::any()) } else { None } }

fn spec_i(v: i128, r: &Restrictions) -> bool {
    r.min_inclusive.map_or(true, |m| v >= m as i128)
        && r.max_inclusive.map_or(true, |m| v <= m as i128)
        && r.min_exclusive.map_or(true, |m| v > m as i128)
        && r.max_exclusive.map_or(true, |m| v < m as i128)
}

#[kani::proof]
#[kani::unwind(3)]
fn c06_i32_all() {
    let r = Restrictions { min_inclusive: any_opt_i32(), max_inclusive: any_opt_i32(), min_exclusive: any_opt_i32(), max_exclusive: any_opt_i32(), ..Default::default() };
    let v: i32 = kani::any();
    let expect = spec_i(v as i128, &r);
    let rc = Rc::new(r);
    std::mem::forget(rc.clone());
    let res = v.check_restrictions(Some(rc));
    let got = res.is_ok();
    std::mem::forget(res);
    assert!(got == expect);
}

#[kani::proof]
fn c06_i64_none() {
    let v: i64 = kani::any();
    let got = v.check_restrictions(None);
    let ok = got.is_ok();
    std::mem::forget(got);
    assert!(ok);
}
