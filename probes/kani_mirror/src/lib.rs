#![allow(unused)]
#[path = "/repo/zeep-lib/src/model/helpers_content.rs"]
mod hc;
#[cfg(kani)]
mod harness;
