#![allow(unused)]
#[path = "/repo/zeep-lib/src/reader.rs"]
pub mod reader;
#[path = "/repo/zeep-lib/src/utils.rs"]
pub mod utils;
#[path = "/repo/zeep-lib/src/error.rs"]
mod error;
#[path = "/repo/zeep-lib/src/model/mod.rs"]
mod model;
#[path = "/repo/zeep-lib/src/model/helpers_content.rs"]
mod hc;
#[cfg(kani)]
mod harness;
