"""Spike: import cycle a.xsd <-> b.xsd (C11/C13): expect unbounded recursion."""
import smi, sys
from smi import *
sys.setrecursionlimit(20000)
bodies=M.parse_mir(open('/tmp/mirprobe/zeep.mir').read()); load_source_types('/repo/zeep-lib/src')
def schema(ns, other, tname):
    return '''<xs:schema xmlns:xs="http://www.w3.org/2001/XMLSchema" targetNamespace="%s" elementFormDefault="qualified">
 <xs:import namespace="urn:other" schemaLocation="%s"/>
 <xs:complexType name="%s"><xs:sequence><xs:element name="X" type="xs:string"/></xs:sequence></xs:complexType></xs:schema>'''%(ns,other,tname)
m=Machine2(bodies,'/repo'); m._fill()
depth=[0]; maxd=[0]
orig_run=m.run
def run(body,args):
    if body.name.endswith('read_xml_internal'):
        depth[0]+=1; maxd[0]=max(maxd[0],depth[0])
        if depth[0]>40: raise Unsupported('DIVERGENCE: read_xml_internal nesting > 40')
        try: return orig_run(body,args)
        finally: depth[0]-=1
    return orig_run(body,args)
m.run=run
files=Adt('Files',0,[PyMap()])
for name,txt in (('a.xsd',schema('urn:a','b.xsd','A')),('b.xsd',schema('urn:b','a.xsd','B'))):
    files.fields[0].entries.append([RString(name),Adt('FileContent',0,[RString(txt),Atomic(False)])])
ftr=Adt('FilesToRead',0,[RString('a.xsd'),files])
try:
    r=m.call('XmlReader::read_xml',[Ref([ftr],0)]); print('returned',r.variant)
except Unsupported as e: print(str(e)[:80])
