"""Spike: symbolic sink-failure index through RustDocument::write_xml (C15)."""
import smi, time
from smi import *
from interp import explore
bodies=M.parse_mir(open('/tmp/mirprobe/zeep.mir').read()); load_source_types('/repo/zeep-lib/src')
XSD='''<xs:schema xmlns:xs="http://www.w3.org/2001/XMLSchema" xmlns:t="http://example.com/v1/types" targetNamespace="http://example.com/v1/types" elementFormDefault="qualified">
 <xs:simpleType name="Code"><xs:annotation><xs:documentation>line one
line two</xs:documentation></xs:annotation><xs:restriction base="xs:string"><xs:enumeration value="A"/><xs:maxLength value="3"/></xs:restriction></xs:simpleType>
 <xs:complexType name="Order"><xs:annotation><xs:documentation>An order</xs:documentation></xs:annotation><xs:sequence>
   <xs:element name="Item" type="xs:long" minOccurs="0"/><xs:element name="Code" type="t:Code"/>
 </xs:sequence><xs:attribute name="id" type="xs:string" use="required"/></xs:complexType></xs:schema>'''
K=z3.Int('k')
class FSink(Sink):
    def __init__(self,m): super().__init__(); self.m=m; self.n=0
def mk(): m=Machine2(bodies,'/repo'); m._fill(); return m
def entry(m):
    fc=Adt('FileContent',0,[RString(XSD),Atomic(False)])
    files=Adt('Files',0,[PyMap()]); files.fields[0].entries.append([RString('a.xsd'),fc])
    ftr=Adt('FilesToRead',0,[RString('a.xsd'),files])
    r=m.call('XmlReader::read_xml',[Ref([ftr],0)]); assert r.variant==0
    sink=FSink(m)
    orig=m.model
    def model(c0,args):
        if c0.endswith('::write_fmt') and isinstance(deref(args[0]),FSink):
            s=deref(args[0])
            if m.branch(K==s.n): return ERR(('io::Error',))
            s.n+=1
        return orig(c0,args)
    m.model=model
    m.pc.append(K>=0)
    try:
        res=m.run(m.impls[('RustDocument','write_xml','WriteXml')],[Ref([r.fields[0]],0),Ref([sink],0)])
        return ('returned','Ok' if res.variant==0 else 'Err',sink.n)
    except Panic as e:
        return ('PANIC',str(e),sink.n)
t0=time.time(); res=explore(mk,entry)
print('paths',len(res),'time %.1fs'%(time.time()-t0),'solver queries',sum(m.queries for _,_,m in res))
bad=[(r,str(pc[-1])) for pc,r,m in res if r[0]=='PANIC' or (r[1]=='Ok' and False)]
oks=[r for pc,r,m in res if r[0]=='returned' and r[1]=='Ok']
errs=[r for pc,r,m in res if r[0]=='returned' and r[1]=='Err']
print('Ok paths',len(oks),oks[:1],'Err paths',len(errs),'PANIC paths',len(bad))
for b in bad[:5]: print('  ',b)
