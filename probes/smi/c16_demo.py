"""Spike: the async SOAP helper's coroutine MIR over contract-constrained stubs (C16 / C07c)."""
import smi, time
from smi import *
from interp import explore, Coro
bodies=M.parse_mir(open('/tmp/mirprobe/zeep.mir').read()); load_source_types('/repo/zeep-lib/src')
ENUMS['SoapError']=['YaserdeError','Http','Restriction']
B=lambda n: z3.Bool(n)
def mk(): m=Machine2(bodies,'/repo'); m._fill(); return m
def entry(m):
    ev=[]; polls={'send':0,'text':0}
    orig=m.model
    def model(c0,args):
        c=c0
        if c.endswith('as CheckRestrictions>::check_restrictions'):
            ev.append('check'); return OK(()) if m.branch(B('check_ok')) else ERR(Adt('SoapError',2,[RString('r')]))
        if c.startswith('yaserde::ser::to_string'):
            ev.append('serialize'); return OK(RString('<xml/>')) if m.branch(B('ser_ok')) else ERR(RString('e'))
        if c.startswith('reqwest::Client::post'): ev.append(('post',as_str(args[1]))); return ['rb']
        if c.startswith('reqwest::RequestBuilder::body'): ev.append(('body',as_str(args[1]))); return args[0]
        if c.startswith('reqwest::RequestBuilder::basic_auth'): ev.append('basic_auth'); return args[0]
        if c.startswith('reqwest::RequestBuilder::send'): ev.append('send'); return ['pending']
        if 'IntoFuture>::into_future' in c: return args[0]
        if c.startswith('Pin::') and c.endswith('new_unchecked'): return [args[0]]
        if c.endswith('as Future>::poll'):
            which='send' if 'Pending as Future' in c else 'text'
            if polls[which]<1 and m.branch(B('pend_%s_%d'%(which,polls[which]))):
                polls[which]+=1; return Adt('Poll',1,[])
            if which=='send':
                return Adt('Poll',0,[OK(['response']) if m.branch(B('send_ok')) else ERR(('reqwest::Error','transport'))])
            return Adt('Poll',0,[OK(RString('<resp/>')) if m.branch(B('text_ok')) else ERR(('reqwest::Error','body'))])
        if c.startswith('reqwest::Response::error_for_status_ref'):
            return OK(args[0]) if m.branch(z3.Not(B('status_4xx_5xx'))) else ERR(('reqwest::Error','status'))
        if c.startswith('reqwest::Response::text'): return ['textfut']
        if c.startswith('yaserde::de::from_str'):
            ev.append('deserialize'); return OK(('YO',)) if m.branch(B('de_ok')) else ERR(RString('e'))
        return orig(c0,args)
    m.model=model
    creds = SOME([RString('u'),RString('p')]) if m.branch(B('credentials')) else NONE()
    coro=Coro([Ref([('client',)],0),'http://svc/',creds,('REQ',)])
    body=bodies['send_soap_request_using_client::{closure#0}']
    for _ in range(4):
        r=m.run(body,[[Ref([coro],0)],Ref([('ctx',)],0)])
        if r.variant==0: return (r.fields[0],list(ev))
    return ('still pending',list(ev))
t0=time.time(); res=explore(mk,entry)
print('paths',len(res),'queries',sum(m.queries for *_,m in res),'time %.1fs'%(time.time()-t0))
bad=0
for pc,(r,ev),m in res:
    val=lambda n: any(str(c)==n for c in pc) and not any(str(c)=='Not(%s)'%n for c in pc)
    sends=ev.count('send'); posts=sum(1 for e in ev if isinstance(e,tuple) and e[0]=='post')
    ok = isinstance(r,Adt) and r.variant==0
    # property: Ok only if every stage ok; one send iff check&ser ok; no send before check; basic_auth iff credentials
    stage_ok = all(val(n) for n in ('check_ok','ser_ok','send_ok','text_ok','de_ok')) and not val('status_4xx_5xx')
    want_sends = 1 if (val('check_ok') and val('ser_ok')) else 0
    good = (ok==stage_ok) and sends==want_sends==posts and (('basic_auth' in ev)==(val('credentials') and want_sends==1)) and (ev[0]=='check')
    if not good: bad+=1; print('VIOLATION',[str(c) for c in pc],r,ev)
print('violations',bad)
print('sample',[str(c) for c in res[0][0]],res[0][1])
