"""Spike: symbolic MIR interpreter core (decision-replay forking, guarded-union strings, z3 guards)."""
import re, sys, itertools
import z3
import mirparse as M

class Panic(Exception): pass
class Unsupported(Exception): pass
class Infeasible(Exception): pass
class NeedDecision(Exception): pass

class SymStr:
    """finite guarded union of concrete strings; guards are z3 Bool, mutually exclusive & exhaustive under pc"""
    def __init__(self, alts): self.alts=alts
    def __repr__(self): return 'SymStr(%d alts)'%len(self.alts)
def sym_choice(name, options):
    sel=z3.Int(name)
    return SymStr([(sel==i, o) for i,o in enumerate(options)]), z3.And(sel>=0, sel<len(options)), sel
def lift(v):  # -> list of (guard, concrete)
    return v.alts if isinstance(v,SymStr) else [(z3.BoolVal(True), v)]
def smap(f, *vals):
    """apply concrete f over all combinations of alternatives"""
    if not any(isinstance(v,SymStr) for v in vals): return f(*vals)
    out={}
    for combo in itertools.product(*[lift(v) for v in vals]):
        g=z3.simplify(z3.And(*[c[0] for c in combo]))
        if z3.is_false(g): continue
        r=f(*[c[1] for c in combo])
        out.setdefault(r,[]).append(g)
    alts=[(z3.simplify(z3.Or(*gs)),r) for r,gs in out.items()]
    if len(alts)==1: return alts[0][1]
    if all(isinstance(r,bool) for _,r in alts):
        return z3.simplify(z3.Or(*[g for g,r in alts if r]))   # symbolic Bool
    return SymStr(alts)

class Adt:
    def __init__(self, name, variant, fields): self.name=name; self.variant=variant; self.fields=fields
    def __repr__(self): return '%s#%s%r'%(self.name,self.variant,self.fields)
class Coro:
    def __init__(self, upvars): self.variant=0; self.store={(None,i):v for i,v in enumerate(upvars)}
class Ref:
    def __init__(self, cont, key): self.cont=cont; self.key=key
    def get(self): return self.cont[self.key]
    def set(self,v): self.cont[self.key]=v
    def __repr__(self): return '&%r'%(self.get(),)
class RString:
    def __init__(self,s): self.s=s
    def __repr__(self): return 'String(%r)'%(self.s,)
class Sink:
    def __init__(self): self.rope=[]
class FmtArg:
    def __init__(self, kind, ref): self.kind=kind; self.ref=ref
class FmtArgs:
    def __init__(self, template, args): self.template=template; self.args=args

ENUMS={'Option':['None','Some'],'Result':['Ok','Err'],'ControlFlow':['Continue','Break']}
STRUCTS={}

def load_source_types(root):
    import glob
    for f in glob.glob(root+'/**/*.rs',recursive=True):
        src=open(f).read()
        for m in re.finditer(r'(?:pub(?:\(crate\))? )?enum (\w+) \{(.*?)\n\}',src,re.S):
            vs=[re.match(r'\s*(?:#\[[^\]]*\]\s*)*(\w+)',x).group(1) for x in M.split_top(m.group(2)) if re.match(r'\s*(?:#\[[^\]]*\]\s*)*(\w+)',x)]
            ENUMS[m.group(1)]=vs
        for m in re.finditer(r'(?:pub )?struct (\w+) \{(.*?)\n\}',src,re.S):
            fs=re.findall(r'^\s*(?:pub(?:\(crate\))? )?(\w+):',m.group(2),re.M); STRUCTS.setdefault(m.group(1),[]).append(fs)

def strip_generics_path(c):
    out=[]; i=0; n=len(c); depth=0
    while i<n:
        ch=c[i]
        if ch=='<': depth+=1
        elif ch=='>' and c[i-1]!='-': depth-=1
        elif depth==0: out.append(ch)
        i+=1
    return ''.join(out)

class Machine:
    def __init__(self, bodies):
        self.b=bodies; self.pc=[]; self.decisions=[]; self.dpos=0; self.solver=z3.Solver(); self.queries=0
        self.steps=0
    # ---- decision-replay forking
    def branch(self, cond):
        """cond: z3 Bool; returns python bool for this path"""
        cond=z3.simplify(cond)
        if z3.is_true(cond): return True
        if z3.is_false(cond): return False
        if self.dpos<len(self.decisions):
            d=self.decisions[self.dpos]
        else:
            d=True; self.decisions.append(d)
        self.dpos+=1
        self.pc.append(cond if d else z3.Not(cond))
        self.queries+=1
        self.solver.push(); self.solver.add(*self.pc); r=self.solver.check(); self.solver.pop()
        if r!=z3.sat: raise Infeasible()
        return d
    # ---- places
    def place_ref(self, fr, pl):
        k=pl[0]
        if k=='local': return Ref(fr, pl[1])
        if k=='deref':
            r=self.place_ref(fr,pl[1]).get()
            if isinstance(r,Ref): return r
            if isinstance(r,(str,SymStr)): return Ref([r],0)      # &str is modelled by value
            raise Unsupported('deref of %r'%(r,))
        if k=='field':
            WR=r'std::mem::(ManuallyDrop|MaybeDangling|MaybeUninit)<'
            if re.match(WR,pl[3]) or (pl[1][0]=='field' and re.match(WR,pl[1][3])) or (pl[1][0]=='deref' and pl[1][1][0]=='local' and False):
                return self.place_ref(fr,pl[1])
            base=self.place_ref(fr,pl[1]).get()
            if isinstance(base,Coro):
                key=(pl[1][2] if pl[1][0]=='downcast' else None, pl[2])
                base.store.setdefault(key,None); return Ref(base.store,key)
            if isinstance(base,Adt): return Ref(base.fields,pl[2])
            if isinstance(base,(list,)): return Ref(base,pl[2])
            if isinstance(base,Ref) and re.search(r'Unique<|NonNull<|\*const |\*mut ',pl[3]): return Ref([base],0)   # Box internals
            raise Unsupported('field of %r (type %s)'%(base,pl[3]))
        if k=='downcast': return self.place_ref(fr,pl[1])
        if k=='index':
            base=self.place_ref(fr,pl[1]).get(); i=fr[pl[2][1]]; return Ref(base,i)
        raise Unsupported('place '+k)
    def operand(self, fr, op):
        k=op[0]
        if k in('copy','move'):
            v=self.place_ref(fr,op[1]).get()
            if k=='copy' and isinstance(v,Adt): return Adt(v.name,v.variant,list(v.fields))
            if k=='copy' and isinstance(v,list): return list(v)
            return v
        c=op[1]
        if c[0] in('str','char'): return c[1]
        if c[0]=='bytes': return c[1]
        if c[0]=='int': return c[1]
        if c[0]=='bool': return c[1]
        if c[0]=='unit': return ()
        if c[0]=='item': return ('item',c[1])
        raise Unsupported('const %r'%(c,))
    def rvalue(self, fr, rv):
        k=rv[0]
        if k=='use': return self.operand(fr,rv[1])
        if k=='ref': return self.place_ref(fr,rv[1])
        if k=='tuple': return [self.operand(fr,o) for o in rv[1]]
        if k=='array': return [self.operand(fr,o) for o in rv[1]]
        if k=='discriminant':
            v=self.place_ref(fr,rv[1]).get()
            if isinstance(v,(Adt,Coro)): return v.variant
            raise Unsupported('discriminant of %r'%(v,))
        if k=='adt':
            path=rv[1]; args=[self.operand(fr,o) for o in rv[2]]
            segs=[x for x in strip_generics_path(path).split('::') if x]
            if len(segs)>=2 and segs[-2] in ENUMS and segs[-1] in ENUMS[segs[-2]]:
                return Adt(segs[-2],ENUMS[segs[-2]].index(segs[-1]),args)
            if len(segs)>=2 and segs[-2][:1].isupper() and segs[-2] not in('Self',) and segs[-1][:1].isupper() and segs[-2] not in ENUMS and segs[-2] not in ('core','std'):
                raise Unsupported('unknown enum for aggregate '+path)
            return Adt(segs[-1],0,args)
        if k=='struct':
            name=rv[1]
            if name.startswith('{closure'): return Adt(name,0,[self.operand(fr,o) for _,o in rv[2]])
            nm=name.split('::')[-1]
            vals={f:self.operand(fr,o) for f,o in rv[2]}
            order=next((fs for fs in STRUCTS.get(nm,[]) if set(fs)==set(vals)),None)
            if order is None: raise Unsupported('struct '+nm)
            return Adt(nm,0,[vals[f] for f in order])
        if k=='binop':
            a=self.operand(fr,rv[2]); b=self.operand(fr,rv[3]); op=rv[1]
            f={'Eq':lambda x,y:x==y,'Ne':lambda x,y:x!=y,'Lt':lambda x,y:x<y,'Le':lambda x,y:x<=y,'Gt':lambda x,y:x>y,'Ge':lambda x,y:x>=y,
               'Add':lambda x,y:x+y,'Sub':lambda x,y:x-y}.get(op)
            if op in('AddWithOverflow','SubWithOverflow'):
                r=a+b if op[0]=='A' else a-b; return [r, not(0<=r<256)]   # spike: u8 only
            if f is None: raise Unsupported('binop '+op)
            return f(a,b)
        if k=='unop':
            a=self.operand(fr,rv[2])
            if rv[1]=='Not':
                if isinstance(a,bool): return not a
                return z3.Not(a)
        if k=='cast': return self.operand(fr,rv[1])
        raise Unsupported('rvalue '+k)
    # ---- calls
    def call(self, callee, args):
        c=callee
        b=self.resolve(c)
        if b is not None: return self.run(b,args)
        return self.model(c,args)
    def resolve(self, callee):
        if callee in self.b: return self.b[callee]
        # Type::method  ->  module::<impl at ...>::method : match by method name & arg count via index
        key=callee.split('::')[-1]
        cands=[b for n,b in self.b.items() if n.split('::')[-1]==key and '<impl at' in n and b.kind=='fn']
        if len(cands)==1 and not callee.startswith('<') and not re.match(r'(core|std|alloc|Option|Result|Vec|String|Rc|Arc|HashMap|Node|Document)\b',callee): return cands[0]
        return None
    def deref_str(self, v):
        while isinstance(v,Ref): v=v.get()
        if isinstance(v,RString): return v.s
        return v
    def display(self, v):
        """Display::fmt of value v -> str/SymStr"""
        v0=v
        while isinstance(v,Ref): v=v.get()
        if isinstance(v,RString): return v.s
        if isinstance(v,(str,SymStr)): return v
        if isinstance(v,int) and not isinstance(v,bool): return str(v)
        if isinstance(v,Adt):
            # find interpreted Display impl: fmt body whose first arg type mentions the ADT
            for n,b in self.b.items():
                if n.endswith('::fmt') and b.arg_types and b.arg_types[0]=='&'+v.name and 'write_str' not in n:
                    # heuristics: Display impl is the one that is not derive(Debug): check raw text for debug_ helpers
                    raw=' '.join(x for blk in b.blocks.values() for x in blk['raw'])
                    if 'debug_' in raw: continue
                    f=Adt('Formatter',0,[Sink()])
                    self.run(b,[Ref([v],0),Ref([f],0)])
                    return rope_join(f.fields[0].rope)
        raise Unsupported('display of %r'%(v,))
    def render(self, fa):
        t=fa.template; i=0; out=[]; ai=0
        while True:
            n=t[i]; i+=1
            if n==0: break
            if n<0x80: out.append(t[i:i+n].decode()); i+=n
            elif n==0x80:
                ln=t[i]|(t[i+1]<<8); i+=2; out.append(t[i:i+ln].decode()); i+=ln
            elif n==0xC0:
                a=fa.args[ai]; ai+=1; out.append(self.display(a.ref))
            else: raise Unsupported('fmt placeholder opts %x'%n)
        return rope_join(out)
    def model(self, c, args):
        base=re.sub(r'::<.*>$','',c)
        if c=='<str as PartialEq>::eq' or base in('<String as PartialEq<str>>::eq','<String as PartialEq<&str>>::eq','<&str as PartialEq<&str>>::eq','<String as PartialEq>::eq'):
            a=self.deref_str(args[0]); b=self.deref_str(args[1]); return smap(lambda x,y:x==y,a,b)
        if c.startswith('core::fmt::rt::Argument') and 'new_display' in c: return FmtArg('display',args[0])
        if c.startswith('Arguments::') and '>::new::<' in c:
            arr=args[1].get() if isinstance(args[1],Ref) else args[1]; return FmtArgs(args[0],arr)
        if c.startswith('Arguments::') and 'from_str' in c: return FmtArgs(bytes([len(args[0])])+args[0].encode()+b'\0',[]) if len(args[0])<128 else FmtArgs(b'\x80'+len(args[0]).to_bytes(2,'little')+args[0].encode()+b'\0',[])
        if c=='format': return RString(self.render(args[0]))
        if base=='must_use': return args[0]
        if c.endswith('as ToString>::to_string'): return RString(self.display(args[0]))
        if c.endswith('::write_fmt') :
            w=args[0]
            while isinstance(w,Ref): w=w.get()
            sink=w.fields[0] if isinstance(w,Adt) else w
            sink.rope.append(self.render(args[1])); return Adt('Result',0,[()])
        if 'as Try>::branch' in c:
            r=args[0]
            if r.variant==0: return Adt('ControlFlow',0,[r.fields[0]])
            return Adt('ControlFlow',1,[Adt('Result',1,[r.fields[0]])])
        if 'as Deref>::deref' in c:
            v=args[0].get()
            if isinstance(v,RString): return v.s
            return Ref([v],0) if not isinstance(v,Ref) else v
        if c.startswith('std::fmt::Formatter') and c.endswith('write_str'):
            f=args[0]
            while isinstance(f,Ref): f=f.get()
            f.fields[0].rope.append(args[1]); return Adt('Result',0,[()])
        if c.startswith('core::str::<impl str>::split_once'):
            s=args[0]; ch=args[1]
            def f(x):
                i=x.find(ch); return None if i<0 else (x[:i],x[i+1:])
            r=f(s) if isinstance(s,str) else None
            if isinstance(s,SymStr): raise Unsupported('split_once on SymStr (spike)')
            return Adt('Option',0,[]) if r is None else Adt('Option',1,[[r[0],r[1]]])
        raise Unsupported('callee '+c)
    # ---- run
    def run(self, body, args):
        if 'lowered' not in body.__dict__: M.lower(body); body.lowered=True
        fr={0:None}
        for i,a in enumerate(args): fr[i+1]=a
        bb=0
        while True:
            blk=body.blocks[bb]
            for st in blk['stmts']:
                self.steps+=1
                if st[0]=='assign': 
                    v=self.rvalue(fr,st[2]); self.place_ref(fr,st[1]).set(v)
                elif st[0]=='nop': pass
                else: raise Unsupported('stmt '+st[0])
            t=blk['term']; k=t[0]
            if k=='goto': bb=t[1]
            elif k=='return': return fr[0]
            elif k=='switch':
                v=self.operand(fr,t[1])
                if isinstance(v,bool): v=int(v)
                if isinstance(v,int): bb=t[2].get(v,t[3])
                else:
                    # symbolic bool
                    d=self.branch(v); bb=t[2].get(1 if d else 0,t[3])
            elif k=='call':
                r=self.call(t[2],[self.operand(fr,a) for a in t[3]])
                if t[1] is not None: self.place_ref(fr,t[1]).set(r)
                if t[4] is None: raise Panic(t[2])
                bb=t[4]
            elif k=='drop': bb=t[2]
            elif k=='unreachable': raise Panic('unreachable')
            else: raise Unsupported('term '+k)

def rope_join(parts):
    parts=[p for p in parts]
    if all(isinstance(p,str) for p in parts): return ''.join(parts)
    return smap(lambda *xs:''.join(xs), *parts)

def explore(machine_factory, entry):
    """DFS over decision vectors; entry(machine) -> result; yields (pc, result|exception)"""
    stack=[[]]; results=[]
    while stack:
        dec=stack.pop()
        m=machine_factory(); m.decisions=list(dec)
        try:
            r=entry(m); results.append((list(m.pc),r,m))
        except Infeasible:
            m_dec=m.decisions
            # flip last decision made on this path if it was a fresh True
            pass
        # schedule sibling: for each fresh decision (beyond len(dec)) that was True, push prefix+False
        for i in range(len(dec),len(m.decisions)):
            if m.decisions[i] is True: stack.append(m.decisions[:i]+[False])
    return results

if __name__=='__main__':
    bodies=M.parse_mir(open('/tmp/mirprobe/zeep.mir').read())
    load_source_types('/repo/zeep-lib/src')
    KW="as break const continue crate else enum extern false fn for if impl in let loop match mod move mut pub ref return self static struct super trait true type unsafe use where while async await dyn abstract become box do final macro override priv typeof unsized virtual yield try gen".split()
    cands=KW+['name','value','item_id']
    s,dom,sel=sym_choice('name',cands)
    def entry(m):
        m.pc.append(dom)
        return m.run(bodies['rename_keywords'],[s])
    res=explore(lambda:Machine(bodies),entry)
    NONRAW={'self','Self','super','crate'}
    viol=[]; q=0
    for pc,r,m in res:
        q+=m.queries
        for g,inp in s.alts:
            for g2,out in lift(r):
                sol=z3.Solver(); sol.add(*pc); sol.add(g); sol.add(g2)
                q+=1
                if sol.check()==z3.sat:
                    legal = (out not in KW) if not out.startswith('r#') else (out[2:] not in NONRAW)
                    if not legal: viol.append((inp,out))
    print('paths',len(res),'queries',q,'violations',sorted(set(viol)))
    # concrete Field::write_xml
    m=Machine(bodies)
    ns=Adt('Namespace',0,[RString('http://x/types'),RString('typ'),RString('mod_typ')])
    fld=Adt('Field',0,[RString('Id'),RString('id'),Adt('RustFieldType',ENUMS['RustFieldType'].index('I64'),[]),True,False,Adt('Option',1,[Ref([ns],0)]),False,False,False])
    sink=Sink()
    wx=[n for n in bodies if 'field.rs:143' in n and n.endswith('write_xml')][0]
    r=m.run(bodies[wx],[Ref([fld],0),Ref([sink],0)])
    print(repr(rope_join(sink.rope)), r, 'steps',m.steps)
