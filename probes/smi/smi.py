"""Spike 2: MIR interpreter with std/roxmltree models, concrete + guarded-union strings."""
import re, sys, itertools, glob
import z3
import mirparse as M
from interp import SymStr, sym_choice, lift, smap, Adt, Ref, RString, Sink, FmtArg, FmtArgs, Panic, Unsupported, Infeasible, rope_join, ENUMS, STRUCTS, load_source_types
import xml.parsers.expat

ENUMS.update({'Poll':['Ready','Pending'],'Ordering':['Relaxed','Release','Acquire','AcqRel','SeqCst'],'AssertKind':['Eq','Ne','Match']})

# ---------------------------------------------------------------- roxmltree model
class XDoc:
    def __init__(self): self.nodes=[]
class XNode:
    def __init__(self, doc, idx): self.doc=doc; self.idx=idx
    @property
    def d(self): return self.doc.nodes[self.idx]
    def __eq__(self,o): return isinstance(o,XNode) and o.doc is self.doc and o.idx==self.idx
    def __hash__(self): return hash(self.idx)
    def __repr__(self): return 'Node#%d<%s>'%(self.idx,self.d.get('tag'))
def parse_xml(text):
    doc=XDoc(); doc.nodes.append(dict(kind='root',parent=None,children=[],ns=[]))
    stack=[0]
    p=xml.parsers.expat.ParserCreate()
    p.ordered_attributes=True
    def start(name, attrs):
        par=stack[-1]; own=[]; at=[]
        for i in range(0,len(attrs),2):
            k,v=attrs[i],attrs[i+1]
            if k=='xmlns': own.append((None,v))
            elif k.startswith('xmlns:'): own.append((k[6:],v))
            else: at.append((k,v))
        pns=doc.nodes[par]['ns'] if doc.nodes[par]['kind']=='element' else []
        ns=list(own)+[x for x in pns if x[0] not in [o[0] for o in own]] if own else list(pns)
        idx=len(doc.nodes)
        doc.nodes.append(dict(kind='element',tag=name.split(':')[-1],attrs=at,ns=ns,parent=par,children=[]))
        doc.nodes[par]['children'].append(idx); stack.append(idx)
    def end(name): stack.pop()
    def chars(data):
        par=stack[-1]; ch=doc.nodes[par]['children']
        if ch and doc.nodes[ch[-1]]['kind']=='text': doc.nodes[ch[-1]]['text']+=data
        else:
            idx=len(doc.nodes); doc.nodes.append(dict(kind='text',text=data,parent=par,children=[],tag='')); ch.append(idx)
    def comment(data):
        par=stack[-1]; idx=len(doc.nodes); doc.nodes.append(dict(kind='comment',text=data,parent=par,children=[],tag='')); doc.nodes[par]['children'].append(idx)
    p.StartElementHandler=start; p.EndElementHandler=end; p.CharacterDataHandler=chars; p.CommentHandler=comment
    p.Parse(text, True)
    return doc

class It:
    """lazy iterator: wraps a python generator"""
    def __init__(self, gen, back=None): self.gen=gen; self.back=back
    def next(self):
        try: return next(self.gen)
        except StopIteration: return None
class PyMap:
    def __init__(self): self.entries=[]
class Atomic:
    def __init__(self,v): self.v=v
class Url:
    def __init__(self,s): self.s=s

NONE=lambda: Adt('Option',0,[])
SOME=lambda v: Adt('Option',1,[v])
OK=lambda v: Adt('Result',0,[v])
ERR=lambda e: Adt('Result',1,[e])
def opt(v): return NONE() if v is None else SOME(v)

def deref(v):
    while isinstance(v,Ref): v=v.get()
    return v
def as_str(v):
    v=deref(v)
    if isinstance(v,RString): return v.s
    return v
def zand(xs):
    xs=list(xs)
    if any(x is False for x in xs): return False
    xs=[x for x in xs if x is not True]
    if not xs: return True
    return z3.And(*xs) if len(xs)>1 else xs[0]
def struct_eq(a,b):
    """structural equality; returns bool or z3 Bool"""
    a=deref(a); b=deref(b)
    if isinstance(a,RString): a=a.s
    if isinstance(b,RString): b=b.s
    if isinstance(a,Adt) and isinstance(b,Adt):
        if a.variant!=b.variant or len(a.fields)!=len(b.fields): return False
        return zand(struct_eq(x,y) for x,y in zip(a.fields,b.fields))
    if isinstance(a,list) and isinstance(b,list):
        if len(a)!=len(b): return False
        return zand(struct_eq(x,y) for x,y in zip(a,b))
    if isinstance(a,SymStr) or isinstance(b,SymStr):
        r=smap(lambda p,q:p==q,a,b); return r
    return a==b
def clone_val(v):
    if isinstance(v,Adt): return Adt(v.name,v.variant,[clone_val(f) for f in v.fields])
    if isinstance(v,RString): return RString(v.s)
    if isinstance(v,list): return [clone_val(x) for x in v]
    return v   # Ref (Rc / &), str, int, XNode

def strip_generics(c):
    # remove turbofish groups ::<...> (nested)
    out=[]; i=0; n=len(c)
    while i<n:
        if c.startswith('::<',i) and not c.startswith('::<impl ',i):
            depth=0; j=i+2
            while j<n:
                if c[j]=='<': depth+=1
                elif c[j]=='>' and c[j-1]!='-':
                    depth-=1
                    if depth==0: break
                j+=1
            i=j+1; continue
        out.append(c[i]); i+=1
    return ''.join(out)

class Machine2:
    def __init__(self, bodies, srcroot):
        self.b=bodies; self.pc=[]; self.decisions=[]; self.dpos=0; self.solver=z3.Solver(); self.queries=0; self.steps=0
        self.parse_registry={}; self.events=[]
        self.closures={}; self.impls={}; self.impl_list=[]
        for n,b in bodies.items():
            if b.kind!='fn': continue
            m=re.search(r'::\{closure#\d+\}$',n)
            if m and b.arg_types:
                t=b.arg_types[0]; mm=re.search(r'\{closure@[^}]*\}',t)
                if mm: self.closures[mm.group()]=b
            m=re.search(r'<impl at ([^:]+):(\d+):\d+: (\d+):\d+>::(\w+)$',n)
            if m:
                f,l1,l2,meth=m.group(1),int(m.group(2)),int(m.group(3)),m.group(4)
                try: src=open('/repo/'+f).read().split('\n')
                except OSError: continue
                hdr=' '.join(src[l1-1:l2])
                c1=int(re.search(r'<impl at [^:]+:\d+:(\d+): \d+:(\d+)>',n).group(1)); c2=int(re.search(r'<impl at [^:]+:\d+:(\d+): \d+:(\d+)>',n).group(2))
                if src[l1-1].lstrip().startswith('#[derive'):
                    tr=src[l1-1][c1-1:c2-1]
                    ty=None
                    for k in range(l1,min(l1+6,len(src))):
                        mt=re.search(r'(?:struct|enum)\s+(\w+)',src[k])
                        if mt: ty=mt.group(1); break
                    if ty: self.impl_list.append(((ty,meth,tr),b))
                    continue
                mm=re.search(r'impl(?:<[^>]*>)?\s+(?:([\w:]+)(?:<[^>]*>)?\s+for\s+)?([\w:]+)',hdr)
                if mm: self.impl_list.append(((mm.group(2).split('::')[-1],meth,(mm.group(1) or '').split('::')[-1]),b))
    def _fill(self):
        for k,b in self.impl_list: self.impls.setdefault(k,b)
    def find_impl(self, ty_qual, meth, tr):
        ty=re.sub(r'<.*','',ty_qual).split('::')[-1].lstrip('&')
        c=[b for (k,b) in self.impl_list if k==(ty,meth,tr)]
        if len(c)<=1: return c[0] if c else None
        # disambiguate by module path overlap
        mods=[x for x in re.sub(r'<.*','',ty_qual).split('::')[:-1]]
        best=max(c,key=lambda b: sum(1 for mname in mods if mname in b.name))
        return best
    def branch(self, cond):
        cond=z3.simplify(cond)
        if z3.is_true(cond): return True
        if z3.is_false(cond): return False
        if self.dpos<len(self.decisions): d=self.decisions[self.dpos]
        else: d=True; self.decisions.append(d)
        self.dpos+=1; self.pc.append(cond if d else z3.Not(cond)); self.queries+=1
        self.solver.push(); self.solver.add(*self.pc); r=self.solver.check(); self.solver.pop()
        if r!=z3.sat: raise Infeasible()
        return d
    def truth(self,v):
        if isinstance(v,bool): return v
        if isinstance(v,int): return v!=0
        return self.branch(v)
    # places / operands / rvalues: reuse logic from spike 1 via composition
    from interp import Machine as _M1
    place_ref=_M1.place_ref; _operand=_M1.operand; rvalue=_M1.rvalue; render=_M1.render
    def operand(self, fr, op):
        v=self._operand(fr,op)
        if isinstance(v,tuple) and len(v)==2 and v[0]=='item':
            if v[1].startswith('ZeroSized: '):
                t=v[1][len('ZeroSized: '):]
                mm=re.search(r'\{closure@[^}]*\}',t)
                if mm: return Adt(mm.group(),0,[])
                mm=re.search(r'\{(.*)\}$',t)
                if mm: return ('item',mm.group(1))
            b=self.resolve_const(v[1])
            if b is not None:
                if not hasattr(b,'value'): b.value=self.run(b,[])
                return b.value
        return v
    def resolve_const(self, name):
        if 'file_header' in name.lower() or 'FileHeader' in name:
            if 'promoted' in name:
                class _B: pass
                b=_B(); nat=open('/tmp/smi/fx/hello.native.rs').read(); k=nat.index('pub const SOAP_ENCODING'); k=nat.index('\n',k)+1
                b.value=Ref([nat[:k]],0); return b
        if not hasattr(self,'const_index'):
            self.const_index={}
            for n,b in self.b.items():
                if b.kind=='fn': continue
                nn=n
                m=re.search(r'<impl at ([^:]+):(\d+):\d+: (\d+):\d+>',n)
                if m:
                    for (t,meth,tr),bb in self.impls.items():
                        if m.group(0) in bb.name: nn=n.replace(m.group(0),t); break
                self.const_index[nn]=b
        mq=re.match(r'<(.+?) as .+>::(.*)$',name)
        if mq: name=mq.group(1).split('::')[-1]+'::'+mq.group(2)
        for nn,b in self.const_index.items():
            if nn==name or name.endswith('::'+nn) or nn.endswith('::'+name): return b
        return None
    def display(self, v):
        v=deref(v)
        if isinstance(v,RString): return v.s
        if isinstance(v,(str,SymStr)): return v
        if isinstance(v,Url): return v.s
        if isinstance(v,bool): return 'true' if v else 'false'
        if isinstance(v,int): return str(v)
        if isinstance(v,Adt):
            b=self.impls.get((v.name,'fmt','Display'))
            if b is not None:
                f=Adt('Formatter',0,[Sink()]); self.run(b,[Ref([v],0),Ref([f],0)]); return rope_join(f.fields[0].rope)
        raise Unsupported('display of %r'%(v,))
    def call_closure(self, f, args):
        f0=deref(f)
        if isinstance(f0,tuple) and f0[0]=='item':
            segs=f0[1].split('::')
            if len(segs)>=2 and segs[-2] in ENUMS and segs[-1] in ENUMS[segs[-2]]: return Adt(segs[-2],ENUMS[segs[-2]].index(segs[-1]),list(args))
            return self.call(f0[1],args)
        if isinstance(f0,Adt) and f0.name.startswith('{closure'):
            b=self.closures[re.search(r'\{closure@[^}]*\}',f0.name).group()]
            env = Ref([f0],0) if b.arg_types[0].startswith('&') else f0
            return self.run(b,[env]+list(args))
        raise Unsupported('call_closure %r'%(f0,))
    def resolve(self, callee):
        if callee in self.b and self.b[callee].kind=='fn': return self.b[callee]
        c=strip_generics(callee)
        if c in self.b and self.b[c].kind=='fn': return self.b[c]
        m=re.match(r"<(.+?) as (.+?)>::(\w+)$",c)
        if m:
            tr=re.sub(r'<.*','',m.group(2)).split('::')[-1]
            return self.find_impl(m.group(1),m.group(3),tr)
        m=re.match(r"([\w:]+)::(\w+)$",c)
        if m:
            ty=m.group(1).split('::')[-1]
            for (t,meth,tr),b in self.impls.items():
                if t==ty and meth==m.group(2) and tr=='': return b
        return None
    def call(self, callee, args):
        b=self.resolve(callee)
        if b is not None: return self.run(b,args)
        return self.model(callee,args)
    def run(self, body, args):
        if not getattr(body,'lowered',False): M.lower(body); body.lowered=True
        fr={0:None}
        for i,a in enumerate(args): fr[i+1]=a
        bb=0
        while True:
            blk=body.blocks[bb]
            self.steps+=1
            if self.steps>400000: raise Unsupported('step budget in '+body.name+' bb%d'%bb)
            for st in blk['stmts']:
                self.steps+=1
                if st[0]=='assign': self.place_ref(fr,st[1]).set(self.rvalue(fr,st[2]))
                elif st[0]=='nop': pass
                elif st[0]=='setdiscr': self.place_ref(fr,st[1]).get().variant=st[2]
                else: raise Unsupported('stmt '+st[0])
            t=blk['term']; k=t[0]
            if k=='goto': bb=t[1]
            elif k=='return': return fr[0]
            elif k=='switch':
                v=self.operand(fr,t[1])
                if isinstance(v,bool): v=int(v)
                if isinstance(v,int): bb=t[2].get(v,t[3])
                else: d=self.branch(v); bb=t[2].get(1 if d else 0,t[3])
            elif k=='call':
                try: r=self.call(t[2],[self.operand(fr,a) for a in t[3]])
                except Unsupported as e:
                    if not getattr(e,'where',None): e.where=body.name; e.args=(e.args[0]+'  [in '+body.name[-60:]+']',)
                    raise
                if t[1] is not None: self.place_ref(fr,t[1]).set(r)
                if t[4] is None: raise Panic(t[2])
                bb=t[4]
            elif k=='drop': bb=t[2]
            elif k=='assert':
                v=self.operand(fr,t[1])
                if isinstance(v,list): v=v[0]
                if bool(v)!=t[2]: raise Panic('assert '+t[3])
                bb=t[4]
            elif k=='unreachable': raise Panic('unreachable in '+body.name)
            else: raise Unsupported('term '+k)
    # ------------------------------------------------------------ models
    def model(self, c0, args):
        c=strip_generics(c0).replace("'_","").replace("'n","")
        meth=c.split('::')[-1]
        a0=args[0] if args else None; d0=deref(a0) if args else None
        # --- fmt
        if 'fmt::rt::Argument' in c and meth in('new_display','new_debug'): return FmtArg(meth,args[0])
        if c.startswith('Arguments') and meth=='new': return FmtArgs(args[0], deref(args[1]))
        if c.startswith('Arguments') and meth=='from_str':
            s=args[0].encode(); return FmtArgs((bytes([len(s)]) if len(s)<128 else b'\x80'+len(s).to_bytes(2,'little'))+s+b'\0',[])
        if c=='format': return RString(self.render(args[0]))
        if c=='must_use': return args[0]
        if meth=='write_fmt':
            w=deref(a0); sink=w.fields[0] if isinstance(w,Adt) else w
            sink.rope.append(self.render(args[1])); return OK(())
        if meth=='write_str' and 'Formatter' in c:
            deref(a0).fields[0].rope.append(args[1]); return OK(())
        if meth=='to_string': return RString(self.display(a0))
        if meth in('as_display','as_dyn_error'): return a0
        # --- Try / ? / conversions
        if meth=='branch':
            r=d0
            if r.name=='Result': return Adt('ControlFlow',0,[r.fields[0]]) if r.variant==0 else Adt('ControlFlow',1,[ERR(r.fields[0])])
            if r.name=='Option': return Adt('ControlFlow',0,[r.fields[0]]) if r.variant==1 else Adt('ControlFlow',1,[NONE()])
        if meth=='from_residual':
            r=d0
            if r.name=='Result':
                e=r.fields[0]
                # From conversion of error types: io::Error -> WriterError::Io etc. (identity wrap for spike)
                return ERR(e)
            return NONE()
        if meth in('into','from') and ('Rc<' in c0 or 'Box<' in c0): return Ref([a0],0)
        if c in('Rc::new','Box::new','Arc::new'): return Ref([a0],0)
        if c=='Box::new_uninit': return Ref([None],0)
        if meth=='deref':
            if isinstance(d0,RString): return d0.s
            if isinstance(a0,Ref) and isinstance(a0.get(),Ref): return a0.get()   # &Rc<T> -> &T
            return a0
        if meth=='as_str': return d0.s
        if meth=='clone': return clone_val(d0)
        if meth=='clone_from': a0.set(clone_val(deref(args[1]))); return ()
        if meth=='default':
            if 'Option' in c0: return NONE()
            if 'Vec' in c0: return []
            raise Unsupported('default '+c0)
        if meth in('eq','ne'):
            x=as_str(a0); y=as_str(args[1])
            if isinstance(x,(str,SymStr)) and isinstance(y,(str,SymStr)): r=smap(lambda p,q:p==q,x,y)
            else: r=struct_eq(a0,args[1])
            if meth=='ne': r=(not r) if isinstance(r,bool) else z3.Not(r)
            return r
        # --- Option / Result combinators
        if isinstance(d0,Adt) and d0.name=='Option':
            some=d0.variant==1; v=d0.fields[0] if some else None
            if meth=='map': return SOME(self.call_closure(args[1],[v])) if some else NONE()
            if meth=='and_then': return self.call_closure(args[1],[v]) if some else NONE()
            if meth=='ok_or_else': return OK(v) if some else ERR(self.call_closure(args[1],[]))
            if meth=='ok_or': return OK(v) if some else ERR(args[1])
            if meth=='map_or': return self.call_closure(args[2],[v]) if some else args[1]
            if meth=='map_or_else': return self.call_closure(args[2],[v]) if some else self.call_closure(args[1],[])
            if meth=='unwrap_or_else': return v if some else self.call_closure(args[1],[])
            if meth=='unwrap_or_default': return v if some else ''
            if meth=='is_some_and': return self.call_closure(args[1],[v]) if some else False
            if meth=='is_none': return not some
            if meth=='is_some': return some
            if meth=='cloned': return SOME(clone_val(deref(v))) if some else NONE()
            if meth=='as_ref': 
                return SOME(Ref(d0.fields,0)) if some else NONE()
            if meth=='as_deref':
                if not some: return NONE()
                x=deref(v); return SOME(x.s if isinstance(x,RString) else (v if isinstance(v,Ref) else Ref(d0.fields,0)))
            if meth in('unwrap','expect'):
                if not some: raise Panic(meth+' on None')
                return v
        if isinstance(d0,Adt) and d0.name=='Result':
            ok=d0.variant==0; v=d0.fields[0]
            if meth=='map_err': return d0 if ok else ERR(self.call_closure(args[1],[v]))
            if meth=='ok': return SOME(v) if ok else NONE()
            if meth in('unwrap','expect'):
                if not ok: raise Panic(meth+' on Err')
                return v
        # --- roxmltree
        if isinstance(d0,XNode):
            n=d0; dd=n.d
            if meth=='is_element': return dd['kind']=='element'
            if meth=='tag_name': return ('xname',dd.get('tag',''))
            if meth=='attribute':
                for k,v in dd.get('attrs',[]):
                    if k==args[1]: return SOME(v)
                return NONE()
            if meth=='children': return It(XNode(n.doc,i) for i in list(dd['children']))
            if meth=='parent': return opt(None if dd['parent'] is None else XNode(n.doc,dd['parent']))
            if meth=='text':
                if dd['kind']=='element':
                    ch=dd['children']
                    return SOME(n.doc.nodes[ch[0]]['text']) if ch and n.doc.nodes[ch[0]]['kind']=='text' else NONE()
                return opt(dd.get('text'))
            if meth=='namespaces': return It(('xns',p,u) for p,u in dd.get('ns',[]))
            if meth=='descendants':
                def gen(i):
                    yield XNode(n.doc,i)
                    for ch in n.doc.nodes[i]['children']: yield from gen(ch)
                return It(gen(n.idx))
        if isinstance(d0,tuple) and d0 and d0[0]=='xname' and meth=='name': return d0[1]
        if isinstance(d0,tuple) and d0 and d0[0]=='xns':
            if meth=='name': return opt(d0[1])
            if meth=='uri': return d0[2]
        if isinstance(d0,XDoc):
            if meth=='root': return XNode(d0,0)
            if meth=='root_element': return next(XNode(d0,i) for i in d0.nodes[0]['children'] if d0.nodes[i]['kind']=='element')
        if meth=='parse' and 'Document' in c0:
            txt=as_str(a0)
            try: return OK(parse_xml(txt))
            except xml.parsers.expat.ExpatError as e: return ERR(('xmlerror',str(e)))
        # --- iterators
        if meth=='into_iter':
            if isinstance(d0,It): return d0
            if isinstance(d0,list):
                if isinstance(a0,Ref): return It(Ref(d0,i) for i in range(len(d0)))     # &Vec
                return It(iter(list(d0)))
            if isinstance(d0,PyMap):
                if isinstance(a0,Ref): return It([Ref(e,0),Ref(e,1)] for e in list(d0.entries))
                return It([e[0],e[1]] for e in list(d0.entries))
        if meth=='iter' and isinstance(d0,list): return It(Ref(d0,i) for i in range(len(d0)))
        if meth=='iter' and isinstance(d0,PyMap): return It([Ref(e,0),Ref(e,1)] for e in list(d0.entries))
        if isinstance(d0,It):
            it=d0
            if meth=='next': return opt(it.next())
            if meth=='next_back':
                items=list(it.gen); 
                if not items: return NONE()
                last=items.pop(); it.gen=iter(items); return SOME(last)
            if meth=='find':
                while True:
                    x=it.next()
                    if x is None: return NONE()
                    if self.truth(self.call_closure(args[1],[Ref([x],0)])): return SOME(x)
            if meth=='any':
                while True:
                    x=it.next()
                    if x is None: return False
                    if self.truth(self.call_closure(args[1],[x])): return True
            if meth=='filter':
                f=args[1]
                def g():
                    while True:
                        x=it.next()
                        if x is None: return
                        if self.truth(self.call_closure(f,[Ref([x],0)])): yield x
                return It(g())
            if meth=='map':
                f=args[1]
                def g():
                    while True:
                        x=it.next()
                        if x is None: return
                        yield self.call_closure(f,[x])
                return It(g())
            if meth=='filter_map':
                f=args[1]
                def g():
                    while True:
                        x=it.next()
                        if x is None: return
                        r=self.call_closure(f,[x])
                        if r.variant==1: yield r.fields[0]
                return It(g())
            if meth=='take':
                k=args[1]
                def g():
                    for _ in range(k):
                        x=it.next()
                        if x is None: return
                        yield x
                return It(g())
            if meth=='for_each':
                while True:
                    x=it.next()
                    if x is None: return ()
                    self.call_closure(args[1],[x])
            if meth=='count':
                k=0
                while it.next() is not None: k+=1
                return k
            if meth=='collect':
                items=[]
                want_result = 'Result<' in c0.split('collect',1)[1]
                want_map = 'HashMap' in c0.split('collect',1)[1]
                tgt=c0.split('collect::<',1)[1][:-1] if 'collect::<' in c0 else ''; want_string = tgt in('String','std::string::String')
                while True:
                    x=it.next()
                    if x is None: break
                    if want_result:
                        if x.variant==1: return x
                        x=x.fields[0]
                    items.append(x)
                if want_string: res=RString(''.join(items))
                elif want_map:
                    res=PyMap()
                    for kv in items: self.map_insert(res,kv[0],kv[1])
                else: res=items
                return OK(res) if want_result else res
        # --- str
        s0=as_str(a0) if args else None
        if isinstance(s0,str) and ('impl str' in c or c.startswith('str::') or c.startswith('<str')):
            if meth=='split_once':
                i=s0.find(args[1]); return NONE() if i<0 else SOME([s0[:i],s0[i+len(args[1]):]])
            if meth=='split': return It(iter(s0.split(args[1])))
            if meth=='split_whitespace': return It(iter(s0.split()))
            if meth=='chars': return It(iter(list(s0)))
            if meth=='trim': return s0.strip()
            if meth=='is_empty': return len(s0)==0
            if meth=='starts_with': return s0.startswith(args[1])
            if meth=='to_lowercase': return RString(s0.lower())
            if meth=='parse':
                if 'Url' in c0 or True:
                    m=re.match(r'^([a-zA-Z][a-zA-Z0-9+.-]*)://([^/?#]*)(.*)$',s0)
                    if not m: return ERR(('urlerror',))
                    sch,host,rest=m.group(1).lower(),m.group(2).lower(),m.group(3) or '/'
                    host=re.sub(r':443$','',host) if sch=='https' else re.sub(r':80$','',host) if sch=='http' else host
                    return OK(Url(sch+'://'+host+(rest if rest else '/')))
        if meth=='contains' and isinstance(d0,list):
            x=deref(args[1]); return any(struct_eq(e,x) for e in d0)
        if meth=='join' and isinstance(d0,list): return RString(as_str(args[1]).join(as_str(x) for x in d0))
        # --- Vec / HashMap / Atomic
        if c in('Vec::new',): return []
        if meth=='push' and isinstance(d0,list): d0.append(args[1]); return ()
        if meth=='pop' and isinstance(d0,list): return opt(d0.pop() if d0 else None)
        if meth=='is_empty' and isinstance(d0,list): return len(d0)==0
        if meth=='extend' and isinstance(d0,list): d0.extend(deref(args[1])); return ()
        if meth=='extend' and isinstance(d0,PyMap):
            for e in deref(args[1]).entries: self.map_insert(d0,e[0],e[1])
            return ()
        if c=='HashMap::new': return PyMap()
        if meth=='from' and 'HashMap' in c0:
            m=PyMap()
            for kv in d0: self.map_insert(m,kv[0],kv[1])
            return m
        if isinstance(d0,PyMap):
            if meth=='insert': return self.map_insert(d0,args[1],args[2])
            if meth=='get':
                k=as_str(args[1])
                for e in d0.entries:
                    if as_str(e[0])==k: return SOME(Ref(e,1))
                return NONE()
            if meth=='contains_key':
                k=as_str(args[1]); return any(as_str(e[0])==k for e in d0.entries)
        if c=='Atomic::new': return Atomic(a0)
        if isinstance(d0,Atomic):
            if meth=='load': return d0.v
            if meth=='store': d0.v=args[1]; return ()
        if c.startswith('inflector::'):
            return RString(inflect(meth,s0))
        if c.endswith('box_assume_init_into_vec_unsafe') or meth=='into_vec': return d0 if isinstance(d0,list) else a0
        raise Unsupported('callee %s  (args %s)'%(c0,[type(deref(a)).__name__ for a in args]))
    def map_insert(self,m,k,v):
        for e in m.entries:
            if as_str(e[0])==as_str(k):
                old=e[1]; e[1]=v; return SOME(old)
        m.entries.append([k,v]); return NONE()

# Inflector: spike uses a python port (design: call the real crate natively)
def inflect(meth,s):
    def is_sep(ch): return not ch.isalnum()
    if meth=='to_snake_case':
        s2=s.rstrip(''.join(set(c for c in s if is_sep(c)))) if s else s
        res=[]; first=True; chars=list(s2)
        for i,ch in enumerate(chars):
            if is_sep(ch):
                if not first: first=True; res.append('_')
            else:
                nxt=chars[i+1] if i+1<len(chars) else 'A'; prv=chars[i-1] if i-1>=0 else 'A'
                req = (not first) and ch==ch.upper() and not ch.isdigit() and ch.isalpha() and (nxt.islower() or prv.islower())
                # inflector: char_is_uppercase = ch == ch.to_ascii_uppercase() (digits count as uppercase)
                req = (not first) and (ch==ch.upper()) and (nxt.islower() or prv.islower())
                if req: res.append('_')
                first=False; res.append(ch.lower())
        return ''.join(res)
    if meth=='to_pascal_case':
        s2=s
        while s2 and is_sep(s2[-1]): s2=s2[:-1]
        res=[]; new_word=True; last=' '; found=False
        for ch in s2:
            if is_sep(ch) and found: new_word=True
            elif (not found) and is_sep(ch): continue
            elif ch.isnumeric(): found=True; new_word=True; res.append(ch)
            elif new_word or (last.islower() and ch.isupper() and last!=' '):
                found=True; new_word=False; res.append(ch.upper())
            else: found=True; last=ch; res.append(ch.lower())
        return ''.join(res)
    raise Unsupported('inflector '+meth)

if __name__=='__main__':
    bodies=M.parse_mir(open('/tmp/mirprobe/zeep.mir').read())
    load_source_types('/repo/zeep-lib/src')
    m=Machine2(bodies,'/repo'); m._fill()
    fname=sys.argv[1]; text=open(fname).read()
    fc=Adt('FileContent',0,[RString(text),Atomic(False)])
    files=Adt('Files',0,[PyMap()]); files.fields[0].entries.append([RString(fname.split('/')[-1]),fc])
    ftr=Adt('FilesToRead',0,[RString(fname.split('/')[-1]),files])
    r=m.call('XmlReader::read_xml',[Ref([ftr],0)])
    print('read_xml ->',('Ok' if r.variant==0 else 'Err %r'%(r.fields,)),'steps',m.steps)
    if r.variant==0:
        sink=Sink(); doc=r.fields[0]
        w=m.impls[('RustDocument','write_xml','WriteXml')]
        r2=m.run(w,[Ref([doc],0),Ref([sink],0)])
        out=rope_join(sink.rope)
        open(fname+'.smi.rs','w').write(out)
        print('write_xml ->',r2.variant,'bytes',len(out),'steps',m.steps)
