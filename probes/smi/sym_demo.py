"""Spike: one symbolic exploration of reader+writer over a schema with symbolic occurrence attributes."""
import smi, time
from smi import *
from interp import sym_choice, lift
bodies=M.parse_mir(open('/tmp/mirprobe/zeep.mir').read()); load_source_types('/repo/zeep-lib/src')
XSD='''<xs:schema xmlns:xs="http://www.w3.org/2001/XMLSchema" xmlns:t="http://example.com/v1/types" targetNamespace="http://example.com/v1/types" elementFormDefault="qualified">
 <xs:complexType name="Order"><xs:sequence>
   <xs:element name="Item" type="xs:long" minOccurs="@MIN@" maxOccurs="@MAX@"/>
 </xs:sequence></xs:complexType></xs:schema>'''
MINS=['0','1']; MAXS=['1','2','unbounded']
smin,dmin,vmin=sym_choice('minOccurs',MINS); smax,dmax,vmax=sym_choice('maxOccurs',MAXS)
def mk():
    m=Machine2(bodies,'/repo'); m._fill()
    # patch the parsed tree: attribute placeholders become symbolic strings
    return m
def entry(m):
    m.pc+= [dmin,dmax]
    doc=parse_xml(XSD)
    for n in doc.nodes:
        if n.get('kind')=='element':
            n['attrs']=[(k,(smin if v=='@MIN@' else smax if v=='@MAX@' else v)) for k,v in n['attrs']]
    orig=m.model
    def model(c0,args):
        if 'Document' in c0 and c0.rstrip(')').endswith('parse'): return OK(doc)
        return orig(c0,args)
    m.model=model
    fc=Adt('FileContent',0,[RString('x'),Atomic(False)])
    files=Adt('Files',0,[PyMap()]); files.fields[0].entries.append([RString('a.xsd'),fc])
    ftr=Adt('FilesToRead',0,[RString('a.xsd'),files])
    r=m.call('XmlReader::read_xml',[Ref([ftr],0)])
    assert r.variant==0
    sink=Sink(); m.run(m.impls[('RustDocument','write_xml','WriteXml')],[Ref([r.fields[0]],0),Ref([sink],0)])
    return rope_join(sink.rope)
from interp import explore
t0=time.time()
res=explore(mk,entry)
q=sum(m.queries for _,_,m in res)
print('paths',len(res),'branch queries',q)
viol=[]
for pc,out,m in res:
    assert isinstance(out,str)
    line=[l for l in out.split('\n') if 'pub item' in l][0].strip()
    for i,mn in enumerate(MINS):
        for j,mx in enumerate(MAXS):
            s=z3.Solver(); s.add(*pc); s.add(vmin==i,vmax==j); q+=1
            if s.check()!=z3.sat: continue
            want='Vec<i64>' if mx in('2','unbounded') else ('Option<i64>' if mn=='0' else 'i64')
            ok = line=='pub item: %s,'%want
            print(' min=%s max=%-9s -> %-28s expected %-12s %s'%(mn,mx,line,want,'' if ok else '<== VIOLATION'))
print('queries',q,'time %.1fs'%(time.time()-t0))
