"""Scenario families (DESIGN section 4). Each returns (Scenario, info) where info carries what the oracles need:
the abstract schema(s), which namespace each file declares, and which components are the subjects."""
from sym import Selector
from schema_model import *
from scen import Scenario
from xmltree import perms, Opt

NS1 = 'http://example.com/v1/types'
NS2 = 'http://example.com/v2/messages'
XSB = ['xs:' + b for b in BUILTINS]

NAME_STYLES = ['Item', 'itemId', 'item_id', 'item-id', 'item.id', 'ITEM', 'Item2Go', 'type', 'match', 'self', 'async', 'HTTPCode']
MINS = [ABSENT, '0', '1']
MAXS = [ABSENT, '1', '2', 'unbounded']
USES = [ABSENT, 'optional', 'required']


class Info:
    def __init__(self, **kw):
        self.__dict__.update(kw)


def s_seq(tier='quick'):
    """sequence of elements with symbolic name / type / occurrence + attributes with symbolic use. Two scenarios (one
    symbolic member each: the path count is a sum, not a product)"""
    out = []
    inner = CT('Inner', Seq([El('b', 'xs:int')]))
    code = ST('Code', 'xs:string', {'maxLength': '3'})
    # (a) first member fully symbolic
    n1 = Selector('n1', NAME_STYLES if tier == 'thorough' else NAME_STYLES[:9])
    t1 = Selector('t1', XSB + ['t:Inner', 't:Code'])
    mn1 = Selector('min1', MINS)
    mx1 = Selector('max1', MAXS)
    order = CT('Order', Seq([El(n1, t1, mn1, mx1), El('last', 'xs:string')]), attrs=[Attr('kind', 'xs:string')])
    sch = Schema(NS1, [code, inner, order], prefixes={'t': NS1})
    out.append((Scenario('S-seq-elem', {'a.xsd': sch}, 'a.xsd', [n1, t1, mn1, mx1]),
                Info(schemas={'a.xsd': sch}, subjects=[('a.xsd', order), ('a.xsd', inner)], simple=[('a.xsd', code)])))
    # (b) a later member and an attribute symbolic
    t2 = Selector('t2', ['t:Inner', 'xs:long', 'xs:boolean'])
    mn2 = Selector('min2', MINS)
    mx2 = Selector('max2', MAXS)
    u1 = Selector('use1', USES)
    ta = Selector('ta', ['xs:string', 'xs:int', 'xs:boolean'])
    na = Selector('na', ['ident', 'Type', 'xml-lang'])
    order2 = CT('Order', Seq([El('first', 'xs:string'), El('Second', t2, mn2, mx2), El('last', 'xs:string')]),
                attrs=[Attr(na, ta, u1), Attr('kind', 'xs:string')])
    sch2 = Schema(NS1, [code, inner, order2], prefixes={'t': NS1})
    out.append((Scenario('S-seq-attr', {'a.xsd': sch2}, 'a.xsd', [t2, mn2, mx2, u1, ta, na]),
                Info(schemas={'a.xsd': sch2}, subjects=[('a.xsd', order2), ('a.xsd', inner)], simple=[('a.xsd', code)])))
    return out


def s_nest(tier='quick'):
    """sequence in sequence / choice in sequence, members before and after the inner particle, occurrence on the particle"""
    kind = Selector('inner_kind', ['seq', 'choice'])
    pmn = Selector('pmin', MINS)
    pmx = Selector('pmax', MAXS)
    mn = Selector('min', MINS)
    mx = Selector('max', MAXS[:3] if tier == 'quick' else MAXS)
    results = []
    for k in ('seq', 'choice'):
        cls = Seq if k == 'seq' else Choice
        ct = CT('Wrapper', Seq([El('before', 'xs:string'),
                                cls([El('in1', 'xs:int', mn, mx), El('in2', 'xs:string')], pmn, pmx),
                                El('after', 'xs:long')]))
        sch = Schema(NS1, [ct], prefixes={'t': NS1})
        sc = Scenario('S-nest-' + k, {'a.xsd': sch}, 'a.xsd', [pmn, pmx, mn, mx])
        results.append((sc, Info(schemas={'a.xsd': sch}, subjects=[('a.xsd', ct)], simple=[])))
    return results


def s_ref_anon_fwd(tier='quick'):
    """element ref to a global element, global element with anonymous complexType, type used before declared
    (declaration order of the components is a symbolic permutation)"""
    mn = Selector('min', MINS)
    mx = Selector('max', MAXS[:2] + ['unbounded'])
    gel = GEl('Header', content=Seq([El('token', 'xs:string')]))
    gtyped = GEl('Note', type='xs:string')
    later = CT('Later', Seq([El('z', 'xs:boolean')]))
    user = CT('User', Seq([El(ref='t:Header', min=mn, max=mx), El('later', 't:Later'), El(ref='t:Note')]))
    order = Selector('order', perms(4) if tier == 'thorough' else [(0, 1, 2, 3), (3, 2, 1, 0), (2, 3, 0, 1), (1, 3, 2, 0)])
    sch = Schema(NS1, [gel, gtyped, later, user], prefixes={'t': NS1}, order=order)
    sc = Scenario('S-ref-anon-fwd', {'a.xsd': sch}, 'a.xsd', [mn, mx, order])
    return sc, Info(schemas={'a.xsd': sch}, subjects=[('a.xsd', user), ('a.xsd', later)], anon=[('a.xsd', gel)], simple=[])


def s_xns(tier='quick'):
    """member typed from another namespace declared in an imported file"""
    mn = Selector('min', MINS)
    mx = Selector('max', MAXS)
    other = CT('Address', Seq([El('street', 'xs:string')]))
    sch_b = Schema(NS2, [other], prefixes={'m': NS2})
    person = CT('Person', Seq([El('home', 'm:Address', mn, mx), El('name', 'xs:string')]))
    sch_a = Schema(NS1, [person], prefixes={'t': NS1, 'm': NS2}, imports=[(NS2, 'b.xsd')])
    sc = Scenario('S-xns', {'a.xsd': sch_a, 'b.xsd': sch_b}, 'a.xsd', [mn, mx])
    return sc, Info(schemas={'a.xsd': sch_a, 'b.xsd': sch_b}, subjects=[('a.xsd', person), ('b.xsd', other)], simple=[])


# ------------------------------------------------------------------------------------------------ C11: import graphs

def import_graph(nfiles=3, slots=2, with_missing=False, with_wellknown=False, names=None, tag=None):
    """files f0..f(n-1); every file has `slots` import slots whose target is symbolic over {none, f0.., [missing], [well-known ns]};
    the start file is symbolic too: one exploration covers every import multigraph of that size"""
    names = list(names) if names else ['f%d.xsd' % i for i in range(nfiles)]
    nfiles = len(names)
    opts = [ABSENT] + names + (['missing.xsd'] if with_missing else [])
    sels = []
    files = {}
    schemas = {}
    edges = {}
    for i, fn in enumerate(names):
        imps = []
        edges[i] = []
        for k in range(slots):
            loc = Selector('imp_%d_%d' % (i, k), opts)
            sels.append(loc)
            edges[i].append(loc)
            ns = 'urn:imported'
            if with_wellknown:
                nss = Selector('impns_%d_%d' % (i, k), ['urn:imported', 'http://www.w3.org/2001/XMLSchema'])
                sels.append(nss)
                ns = nss
            imps.append((ns, loc))
        ct = CT('T%d' % i, Seq([El('x%d' % i, 'xs:string')]))
        sch = Schema('urn:f%d' % i, [ct], prefixes={'t': 'urn:f%d' % i})
        sch.imports = imps
        schemas[fn] = sch
        files[fn] = sch
    start = Selector('start', names)
    sels.append(start)
    sc = Scenario(tag or 'imports-%d-%d%s%s' % (nfiles, slots, '-missing' if with_missing else '', '-wk' if with_wellknown else ''),
                  files, start, sels)
    return sc, Info(schemas=schemas, names=names, edges=edges, start=start, opts=opts, nfiles=nfiles, slots=slots)


def imports_annotated():
    """an xs:annotation before the imports or between two imports (imports need not be the first children of xs:schema)"""
    sc, info = import_graph(slots=2, names=['f0.xsd', 'f1.xsd', 'f2.xsd'], tag='imports-annotated')
    notes = Selector('annotation_position', ['none', 'first', 'between'])
    info.schemas['f0.xsd'].import_notes = notes
    # f0 imports f1 and f2 (in either slot order); the other files import nothing; start = f0
    keep = []
    for sel in sc.selectors:
        if sel.name.startswith('imp_0_'):
            keep.append(sel)
    sc2 = Scenario('imports-annotated', {fn: info.schemas[fn] for fn in info.names}, info.start, sc.selectors + [notes])
    import z3
    extra = [sel.var == 0 for sel in sc.selectors if sel.name.startswith('imp_1_') or sel.name.startswith('imp_2_')] + [info.start.var == 0,
             keep[0].var >= 2, keep[1].var >= 2]
    sc2.domain = z3.And(sc2.domain, *extra)
    return sc2, info


# ------------------------------------------------------------------------------------------------ WSDL families

NSW = 'http://example.com/orders/v1'


def body_el(name, field='value', ftype='xs:string'):
    return GEl(name, content=Seq([El(field, ftype)]))


def wsdl_multi(nops=3, multipart=True):
    """concrete WSDL: nops operations, the first one with a two-part input message and no parts= on soap:body"""
    els = []
    msgs = []
    ops = []
    for i in range(nops):
        n = ['GetQuote', 'placeOrder', 'Cancel', 'Ping'][i]
        els += [body_el(n + 'Request'), body_el(n + 'Response')]
        parts = [('parameters', 'tns:%sRequest' % n)]
        if i == 0 and multipart:
            els.append(body_el('AuthHeader', 'token'))
            parts = [('zparams', 'tns:%sRequest' % n), ('auth', 'tns:AuthHeader')]
        msgs += [Msg(n + 'In', parts), Msg(n + 'Out', [('parameters', 'tns:%sResponse' % n)])]
        ops.append(Op(n, 'tns:%sIn' % n, 'tns:%sOut' % n, action='http://example.com/orders/v1/' + n))
    sch = Schema(NSW, els, prefixes={})
    w = Wsdl(NSW, sch, msgs, ops)
    return w


# ------------------------------------------------------------------------------------------------ C08: extension forests

def x_chain(tier='quick', decoy=False):
    """Base <- Mid <- Leaf in one file; declaration order symbolic (all 6 permutations); optional decoy: a type that
    is declared first and has a LOCAL element / attribute named like the base types"""
    base = CT('Base', Seq([El('a', 'xs:string'), El('a2', 'xs:long', '0')]), attrs=[Attr('v', 'xs:string', 'required')])
    mid = CT('Mid', Seq([El('b', 'xs:int')]), base='t:Base', ext_attrs=[Attr('w', 'xs:string')])
    leaf = CT('Leaf', Seq([El('c', 'xs:boolean', None, 'unbounded'), Choice([El('d1', 'xs:string'), El('d2', 'xs:int')])]), base='t:Mid')
    empty = CT('Bare', None, base='t:Base')
    comps = [base, mid, leaf, empty]
    order = Selector('order', perms(4) if tier == 'thorough' else [(0, 1, 2, 3), (3, 2, 1, 0), (1, 0, 3, 2), (2, 3, 0, 1), (2, 0, 3, 1), (3, 1, 2, 0)])
    if decoy == 'global':
        # global ELEMENTS named like the types they are of (the usual doc/literal shape): elements and types are separate symbol
        # spaces, base= denotes the type. One element is declared before every type, the other after.
        ref_user = CT('RefUser', Seq([El(ref='t:Base'), El('z', 'xs:string')]))
        comps = [ref_user, GEl('Base', type='t:Base')] + comps + [GEl('Mid', type='t:Mid')]
        order = Selector('order', [(0, 1) + tuple(i + 2 for i in p) + (6,) for p in order.options])
    elif decoy:
        dec = CT('Decoy', Seq([El('Base', 'xs:string'), El('Mid', 'xs:int')]), attrs=[Attr('Leaf', 'xs:string')])
        comps = [dec] + comps
        order = Selector('order', [(0,) + tuple(i + 1 for i in p) for p in order.options])
    sch = Schema(NS1, comps, prefixes={'t': NS1}, order=order)
    sc = Scenario('X-chain' + ('-global-elements' if decoy == 'global' else '-decoy' if decoy else ''), {'a.xsd': sch}, 'a.xsd', [order])
    return sc, Info(schemas={'a.xsd': sch}, subjects=[('a.xsd', base)], derived=[('a.xsd', mid, ('a.xsd', base)), ('a.xsd', leaf, ('a.xsd', mid)), ('a.xsd', empty, ('a.xsd', base))],
                    simple=[], bases={'Base': None, 'Mid': ('a.xsd', base), 'Leaf': ('a.xsd', mid), 'Bare': ('a.xsd', base)})


def x_cross(tier='quick'):
    """base in another namespace and file; the importing file declares the derived type before or after the import's use"""
    base = CT('Base', Seq([El('a', 'xs:string')]), attrs=[Attr('v', 'xs:string')])
    sch_b = Schema(NS2, [base], prefixes={'m': NS2})
    other = CT('Unrelated', Seq([El('u', 'xs:string')]))
    der = CT('Derived', Seq([El('b', 'xs:int')]), base='m:Base')
    order = Selector('order', perms(2))
    sch_a = Schema(NS1, [other, der], prefixes={'t': NS1, 'm': NS2}, imports=[(NS2, 'b.xsd')], order=order)
    sc = Scenario('X-cross', {'a.xsd': sch_a, 'b.xsd': sch_b}, 'a.xsd', [order])
    return sc, Info(schemas={'a.xsd': sch_a, 'b.xsd': sch_b}, subjects=[('b.xsd', base), ('a.xsd', other)], derived=[('a.xsd', der, ('b.xsd', base))], simple=[],
                    bases={'Base': None, 'Derived': ('b.xsd', base), 'Unrelated': None})


# ------------------------------------------------------------------------------------------------ C09: QName resolution

def q_types(tier='quick'):
    """two namespaces define a complexType with the SAME local name but different members; references (type=, base=)
    use a symbolic prefix; declaration order symbolic"""
    thing1 = CT('Thing', Seq([El('x1', 'xs:string')]))
    thing2 = CT('Thing', Seq([El('x2', 'xs:int'), El('y2', 'xs:long')]))
    sch_b = Schema(NS2, [thing2], prefixes={'m': NS2})
    pfx = Selector('ref_prefix', ['t', 'm'])
    bpfx = Selector('base_prefix', ['t', 'm'])
    tref = Selector('type_ref', ['t:Thing', 'm:Thing'])
    bref = Selector('base_ref', ['t:Thing', 'm:Thing'])
    user = CT('User', Seq([El('thing', tref), El('n', 'xs:string')]))
    der = CT('Special', Seq([El('extra', 'xs:boolean')]), base=bref)
    order = Selector('order', perms(3) if tier == 'thorough' else [(0, 1, 2), (2, 1, 0), (1, 2, 0)])
    sch_a = Schema(NS1, [thing1, user, der], prefixes={'t': NS1, 'm': NS2}, imports=[(NS2, 'b.xsd')], order=order)
    sc = Scenario('Q-types', {'a.xsd': sch_a, 'b.xsd': sch_b}, 'a.xsd', [tref, bref, order])
    return sc, Info(schemas={'a.xsd': sch_a, 'b.xsd': sch_b}, things={'t': ('a.xsd', thing1), 'm': ('b.xsd', thing2)}, user=user, der=der,
                    tref=tref, bref=bref, subjects=[('a.xsd', user)], simple=[])


def q_rebind(tier='quick'):
    """the same prefix is bound to different namespaces in different files"""
    inner1 = CT('Inner', Seq([El('p1', 'xs:string')]))
    inner2 = CT('Inner', Seq([El('p2', 'xs:int')]))
    holder2 = CT('Holder', Seq([El('inner', 't:Inner')]))          # in b.xsd, t = NS2 -> must be NS2's Inner
    sch_b = Schema(NS2, [inner2, holder2], prefixes={'t': NS2})
    top = CT('Top', Seq([El('inner', 't:Inner'), El('holder', 'o:Holder')]))   # in a.xsd, t = NS1
    order = Selector('order', perms(2))
    sch_a = Schema(NS1, [inner1, top], prefixes={'t': NS1, 'o': NS2}, imports=[(NS2, 'b.xsd')], order=order)
    sc = Scenario('Q-rebind', {'a.xsd': sch_a, 'b.xsd': sch_b}, 'a.xsd', [order])
    return sc, Info(schemas={'a.xsd': sch_a, 'b.xsd': sch_b}, simple=[], subjects=[('a.xsd', top)],
                    expect=[('Top', 'inner', NS1), ('Holder', 'inner', NS2)], probes={NS1: ('Top', 'p1'), NS2: ('Holder', 'p2')})


# ------------------------------------------------------------------------------------------------ C10: namespaces

ADV_URIS = ['http://example.com/v1/types', 'http://example.com/v2/types', 'http://example.com/v3/Types', 'http://example.com/typ', 'http://example.com/services/zoë',
            'http://example.com/api/v11', 'http://example.com/api/v1', 'urn:example:types', 'http://example.com/types/', 'http://example.com/my-types', 'http://example.com/t.y.p.e', 'http://example.com/v1/messages']


def n_namespaces(tier='quick'):
    """namespaces met in four ways: target of the start file, root xmlns of the start file (referenced only), target of an
    imported file, nested xmlns on a component of the imported file. The four URIs are symbolic over adversarial URIs."""
    dom = ADV_URIS if tier == 'thorough' else ADV_URIS[:5]
    ua = Selector('uri_target_a', dom)
    ur = Selector('uri_ref_a', dom)
    ub = Selector('uri_target_b', dom)
    un = Selector('uri_nested_b', dom[:4])
    tb = CT('InB', Seq([El('q', 'xs:string')]))
    sch_b = Schema(ub, [tb], prefixes={'bb': ub, 'nn': un})
    ta = CT('InA', Seq([El('p', 'xs:string'), El('other', 'bb:InB')]))
    sch_a = Schema(ua, [ta], prefixes={'aa': ua, 'rr': ur, 'bb': ub}, imports=[(ub, 'b.xsd')])
    sc = Scenario('N-namespaces', {'a.xsd': sch_a, 'b.xsd': sch_b}, 'a.xsd', [ua, ur, ub, un])
    return sc, Info(schemas={'a.xsd': sch_a, 'b.xsd': sch_b}, ua=ua, ub=ub, ur=ur, un=un, simple=[], subjects=[])


def n_within(tier='quick'):
    """one document: the target namespace has NO xmlns declaration (met only through targetNamespace), two other
    namespaces are referenced through root xmlns declarations"""
    dom = ADV_URIS if tier == 'thorough' else ADV_URIS[:5]
    ua = Selector('uri_target', dom)
    ur = Selector('uri_ref1', dom)
    u2 = Selector('uri_ref2', dom[:4])
    ta = CT('InA', Seq([El('p', 'xs:string')]))
    sch_a = Schema(ua, [ta], prefixes={'rr': ur, 'ss': u2})
    sc = Scenario('N-within', {'a.xsd': sch_a}, 'a.xsd', [ua, ur, u2])
    return sc, Info(schemas={'a.xsd': sch_a}, ua=ua, ub=ua, ur=ur, simple=[], subjects=[], single=True)


# ------------------------------------------------------------------------------------------------ C03: annotations

def s_xref(tier='quick', pfx='m'):
    """element ref= to a global element of ANOTHER namespace (imported file); the two namespace URIs are symbolic over
    adversarial URIs; the start file's target namespace has no xmlns declaration of its own. pfx: the prefix the start file
    binds to the imported namespace (a user prefix may well begin with the letters xml)"""
    dom = ADV_URIS[:7] if tier == 'quick' else ADV_URIS
    if pfx != 'm':
        dom = dom[:3]
    ua = Selector('uri_a', dom)
    ub = Selector('uri_b', dom)
    remote = GEl('Remote', content=Seq([El('r', 'xs:string')]))
    sch_b = Schema(ub, [remote], prefixes={'m': ub})
    person = CT('Person', Seq([El(ref=pfx + ':Remote'), El('name', 'xs:string')]), attrs=[Attr('id', 'xs:string', 'required')])
    sch_a = Schema(ua, [person], prefixes={pfx: ub}, imports=[(ub, 'b.xsd')])
    sc = Scenario('S-xref' + ('' if pfx == 'm' else '-prefix-' + pfx), {'a.xsd': sch_a, 'b.xsd': sch_b}, 'a.xsd', [ua, ub])
    return sc, Info(schemas={'a.xsd': sch_a, 'b.xsd': sch_b}, subjects=[('a.xsd', person)], anon=[('b.xsd', remote)], simple=[], bases={}, distinct=(ua, ub))


OP_NAMES = ['GetQuote', 'getQuote', 'get_quote', 'Get-Quote', 'GETQuote']
EL_NAMES = ['GetQuoteRequest', 'getQuoteRequest', 'get_quote_request']


def w_ops(tier='quick', headers=0, other_ns=False):
    """WSDL with two operations; the first has symbolic operation name style, element name style, part name, parts=
    presence and output presence; `headers` header parts are bound on its input"""
    opn = Selector('op_name', OP_NAMES if tier == 'thorough' else OP_NAMES[:4])
    eln = Selector('el_name', EL_NAMES)
    partn = Selector('part_name', ['parameters', 'body'])
    has_out = Selector('has_output', [True, False])
    svc = Selector('service_name', ['OrdersService', 'Orders'])
    locsel = Selector('address', ['http://example.com/orders', 'http://example.com/gateway/soap?service=hello&tenant=acme', 'http://example.com/services/orders/'])
    sels = [opn, eln, partn, has_out, svc, locsel]
    els = [GEl(eln, content=Seq([El('symbol', 'xs:string')])), body_el('GetQuoteResponse'), body_el('PingRequest'), body_el('PingResponse')]
    hdr_els = []
    hparts = []
    for i in range(headers):
        hn = ['AuthHeader', 'traceContext'][i]
        hdr_els.append(GEl(hn, content=Seq([El('token', 'xs:string')])))
        hparts.append((['auth', 'trace'][i], 'tns:' + hn))
    els += hdr_els
    req_ref = smap(lambda e: 'tns:' + e, eln.sym())
    # soap:body with or without parts=; without it the body is made of the message parts that no soap:header binds
    parts_attr = Selector('parts_attr', [ABSENT, 'yes'])
    sels.append(parts_attr)
    bparts = Opt(partn.sym(), parts_attr.var != 0)
    in_parts = [(partn, req_ref)] + hparts
    # the second operation's message names are suffixes of the first one's and are declared first
    msgs = [Msg('QuoteIn', [('parameters', 'tns:PingRequest')]), Msg('QuoteOut', [('parameters', 'tns:PingResponse')]),
            Msg('GetQuoteIn', in_parts), Msg('GetQuoteOut', [('parameters', 'tns:GetQuoteResponse')])]
    op1 = Op(opn, 'tns:GetQuoteIn', 'tns:GetQuoteOut', body_parts=bparts, headers=[h[0] for h in hparts],
             action='http://example.com/orders/v1/GetQuote', has_output=(has_out.var == 0))
    op2 = Op('Ping', 'tns:QuoteIn', 'tns:QuoteOut')
    sch = Schema(NSW, els, prefixes={})
    w = Wsdl(NSW, sch, msgs, [op1, op2], service=svc, location=locsel)
    sc = Scenario('W-ops-h%d' % headers, {'svc.wsdl': w.tree()}, 'svc.wsdl', sels)
    return sc, Info(wsdl=w, opn=opn, eln=eln, partn=partn, has_out=has_out, svc=svc, headers=hparts, parts_attr=parts_attr, location=locsel,
                    ops=[dict(name=opn, body_el=eln, headers=[h[1].split(':')[1] for h in hparts], has_output=has_out, out_el='GetQuoteResponse'),
                         dict(name='Ping', body_el='PingRequest', headers=[], has_output=True, out_el='PingResponse')])


NS3 = 'http://example.com/v3/core'


def q_default(tier='quick'):
    """UNPREFIXED references (default xmlns = target namespace) while an imported file declares a type of the same
    local name: the reference must denote the importer's own type"""
    addr1 = CT('Address', Seq([El('host', 'xs:string'), El('port', 'xs:unsignedShort', '0')]))
    addr2 = CT('Address', Seq([El('street', 'xs:string'), El('city', 'xs:string')]))
    sch_b = Schema(NS2, [addr2], prefixes={'m': NS2})
    der = CT('WeightedAddress', Seq([El('weight', 'xs:int')]), base='Address')
    user = CT('Endpoint', Seq([El('address', 'Address')]))
    order = Selector('order', perms(3) if tier == 'thorough' else [(0, 1, 2), (2, 1, 0), (1, 0, 2)])
    sch_a = Schema(NS1, [addr1, der, user], prefixes={'m': NS2}, imports=[(NS2, 'b.xsd')], order=order, default_ns=NS1)
    sc = Scenario('Q-default', {'a.xsd': sch_a, 'b.xsd': sch_b}, 'a.xsd', [order])
    return sc, Info(schemas={'a.xsd': sch_a, 'b.xsd': sch_b}, simple=[], subjects=[('a.xsd', addr1)], default=True,
                    derived=[('a.xsd', der, ('a.xsd', addr1))], bases={'Address': None, 'WeightedAddress': ('a.xsd', addr1)})


def x_cross3(tier='quick'):
    """chain crossing two namespace boundaries: core.xsd <- mid.xsd <- main.xsd; inherited members keep the namespace
    of the schema that declared them"""
    core = CT('CoreType', Seq([El('Id', 'xs:string')]), attrs=[Attr('Tag', 'xs:string')])
    sch_c = Schema(NS3, [core], prefixes={'cor': NS3})
    mid = CT('MidType', Seq([El('Name', 'xs:string')]), base='cor:CoreType')
    sch_m = Schema(NS2, [mid], prefixes={'mid': NS2, 'cor': NS3}, imports=[(NS3, 'core.xsd')])
    leaf = CT('LeafType', Seq([El('Own', 'xs:int')]), base='mid:MidType')
    sch_a = Schema(NS1, [leaf], prefixes={'app': NS1, 'mid': NS2}, imports=[(NS2, 'mid.xsd')])
    sc = Scenario('X-cross3', {'main.xsd': sch_a, 'mid.xsd': sch_m, 'core.xsd': sch_c}, 'main.xsd', [])
    return sc, Info(schemas={'main.xsd': sch_a, 'mid.xsd': sch_m, 'core.xsd': sch_c}, subjects=[('core.xsd', core)],
                    derived=[('mid.xsd', mid, ('core.xsd', core)), ('main.xsd', leaf, ('mid.xsd', mid))], simple=[],
                    bases={'CoreType': None, 'MidType': ('core.xsd', core), 'LeafType': ('mid.xsd', mid)})


def x_samename(tier='quick'):
    """local names shared across namespaces: a.xsd declares Address (extending the imported m:Address) and Item, and Special
    extending its OWN t:Item, which may be declared after it; b.xsd has an unrelated Item. Declaration order in a.xsd symbolic."""
    b_addr = CT('Address', Seq([El('street', 'xs:string'), El('city', 'xs:string'), El('kind', 'm:Item')]), attrs=[Attr('country', 'xs:string')])
    b_item = CT('Item', Seq([El('code', 'xs:string')]), attrs=[Attr('flag', 'xs:boolean')])
    sch_b = Schema(NS2, [b_addr, b_item], prefixes={'m': NS2})
    a_addr = CT('Address', Seq([El('note', 'xs:string')]), base='m:Address', ext_attrs=[Attr('preferred', 'xs:boolean')])
    a_item = CT('Item', Seq([El('sku', 'xs:string'), El('qty', 'xs:int')]), attrs=[Attr('lineNo', 'xs:int')])
    special = CT('Special', Seq([El('discount', 'xs:int')]), base='t:Item')
    order = Selector('order', perms(3))
    sch_a = Schema(NS1, [a_addr, a_item, special], prefixes={'t': NS1, 'm': NS2}, imports=[(NS2, 'b.xsd')], order=order)
    sc = Scenario('X-samename', {'a.xsd': sch_a, 'b.xsd': sch_b}, 'a.xsd', [order])
    return sc, Info(schemas={'a.xsd': sch_a, 'b.xsd': sch_b}, subjects=[('b.xsd', b_item), ('a.xsd', a_item)],
                    derived=[('a.xsd', a_addr, ('b.xsd', b_addr)), ('a.xsd', special, ('a.xsd', a_item))], simple=[],
                    bases={('a.xsd', 'Address'): ('b.xsd', b_addr), ('b.xsd', 'Address'): None, ('a.xsd', 'Item'): None, ('b.xsd', 'Item'): None, ('a.xsd', 'Special'): ('a.xsd', a_item)})


def x_particles(tier='quick'):
    """the extension's own content is a choice, an xs:all or a sequence directly under xs:extension (symbolic), FOLLOWED by the
    extension's own attributes; the base carries members and an attribute; declaration order symbolic"""
    kind = Selector('own_particle', ['choice', 'all', 'seq'])
    base = CT('Base', Seq([El('id', 'xs:string')]), attrs=[Attr('rev', 'xs:int')])
    order = Selector('order', perms(2))
    scs = []
    for k, P in (('choice', Choice), ('all', All), ('seq', Seq)):
        derived = CT('Derived', P([El('p', 'xs:string'), El('q', 'xs:long')]), base='t:Base', ext_attrs=[Attr('own_attr', 'xs:string'), Attr('second', 'xs:int')])
        sch = Schema(NS1, [derived, base], prefixes={'t': NS1}, order=order)
        sc = Scenario('X-particles-' + k, {'a.xsd': sch}, 'a.xsd', [order])
        scs.append((sc, Info(schemas={'a.xsd': sch}, subjects=[('a.xsd', base)], derived=[('a.xsd', derived, ('a.xsd', base))], simple=[],
                             bases={'Base': None, 'Derived': ('a.xsd', base)})))
    return scs


def x_diamond(tier='quick'):
    """diamond import with three arms: top.xsd imports left.xsd, middle.xsd and right.xsd, all of which import common.xsd and
    extend its type; the order of the three imports in top.xsd is symbolic"""
    NSL, NSM, NSR, NSC = 'http://example.com/left', 'http://example.com/middle', 'http://example.com/right', 'http://example.com/common'
    common = CT('Common', Seq([El('id', 'xs:string')]), attrs=[Attr('rev', 'xs:int')])
    sch_c = Schema(NSC, [common], prefixes={'com': NSC})
    left = CT('Left', Seq([El('l', 'xs:string')]), base='com:Common')
    sch_l = Schema(NSL, [left], prefixes={'lef': NSL, 'com': NSC}, imports=[(NSC, 'common.xsd')])
    middle = CT('Middle', Seq([El('m', 'xs:long')]), base='com:Common')
    sch_m = Schema(NSM, [middle], prefixes={'mid': NSM, 'com': NSC}, imports=[(NSC, 'common.xsd')])
    right = CT('Right', Seq([El('r', 'xs:int')]), base='com:Common')
    sch_r = Schema(NSR, [right], prefixes={'rig': NSR, 'com': NSC}, imports=[(NSC, 'common.xsd')])
    top = CT('Top', Seq([El('t', 'xs:string'), El('other', 'rig:Right'), El('third', 'mid:Middle')]), base='lef:Left')
    arms = [('left.xsd', NSL), ('middle.xsd', NSM), ('right.xsd', NSR)]
    order = Selector('import_order', perms(3))
    imps = []
    for k in range(3):
        loc = smap(lambda o, k=k: arms[o[k]][0], order.sym())
        ns = smap(lambda o, k=k: arms[o[k]][1], order.sym())
        imps.append((ns, loc))
    sch_t = Schema(NS1, [top], prefixes={'app': NS1, 'lef': NSL, 'rig': NSR, 'mid': NSM}, imports=imps)
    files = {'top.xsd': sch_t, 'left.xsd': sch_l, 'middle.xsd': sch_m, 'right.xsd': sch_r, 'common.xsd': sch_c}
    sc = Scenario('X-diamond', files, 'top.xsd', [order])
    return sc, Info(schemas=files, subjects=[('common.xsd', common)],
                    derived=[('left.xsd', left, ('common.xsd', common)), ('middle.xsd', middle, ('common.xsd', common)), ('right.xsd', right, ('common.xsd', common)),
                             ('top.xsd', top, ('left.xsd', left))], simple=[],
                    bases={'Common': None, 'Left': ('common.xsd', common), 'Middle': ('common.xsd', common), 'Right': ('common.xsd', common), 'Top': ('left.xsd', left)})


def three_ns_doc():
    """one struct with element members from two foreign namespaces (ref= to elements of two imported files)"""
    e1 = GEl('Customer', content=Seq([El('c', 'xs:string')]))
    e2 = GEl('Product', content=Seq([El('p', 'xs:string')]))
    sch_c = Schema('http://example.com/customer', [e1], prefixes={'cus': 'http://example.com/customer'})
    sch_p = Schema('http://example.com/product', [e2], prefixes={'pro': 'http://example.com/product'})
    order = CT('OrderType', Seq([El(ref='cus:Customer'), El(ref='pro:Product'), El('n', 'xs:int')]))
    sch_o = Schema('http://example.com/order', [order], prefixes={'ord': 'http://example.com/order', 'cus': 'http://example.com/customer', 'pro': 'http://example.com/product'},
                   imports=[('http://example.com/customer', 'customer.xsd'), ('http://example.com/product', 'product.xsd')])
    return {'order.xsd': sch_o, 'customer.xsd': sch_c, 'product.xsd': sch_p}


# ------------------------------------------------------------------------------------------------ C07: facets

FACETS = ['minInclusive', 'maxInclusive', 'minExclusive', 'maxExclusive', 'length', 'minLength', 'maxLength']
RUST_FACET = {'minInclusive': 'min_inclusive', 'maxInclusive': 'max_inclusive', 'minExclusive': 'min_exclusive', 'maxExclusive': 'max_exclusive',
              'length': 'length', 'minLength': 'min_length', 'maxLength': 'max_length'}


def r_facets(tier='quick', as_attr=False, group='num'):
    """restricted simple type: every supported facet of one group (numeric / length) absent or one of several values (incl.
    negative / i32 boundary), written as child elements or as attributes of xs:restriction; 0..3 enumeration values (one of them the empty string); plus
    unsupported facets. The other group's facets are fixed (present)."""
    numvals = [ABSENT, '0', '-5', '2147483647', '-2147483648'] if tier == 'thorough' else [ABSENT, '0', '-5', '2147483647']
    lenvals = [ABSENT, '0', '3', '255']
    sels = {}
    facets = {}
    for f in FACETS:
        is_num = 'clusive' in f
        if (group == 'num') == is_num:
            sel = Selector('f_' + f, numvals if is_num else lenvals)
            sels[f] = sel
            facets[f] = sel
        else:
            facets[f] = '7'
            sels[f] = '7'
    nenum = Selector('n_enum', [0, 1, 2, 3])
    base = Selector('base', ['xs:string', 'xs:int', 'xs:long'] if tier == 'thorough' else ['xs:string', 'xs:int'])
    st = ST('Code', base, dict(facets, pattern='[A-Z]+', whiteSpace='collapse', totalDigits='4'), facets_as_attr=as_attr)
    sch = Schema(NS1, [st, CT('Holder', Seq([El('code', 't:Code'), El('codes', 't:Code', '0', 'unbounded'), El('maybe', 't:Code', '0')]),
                                 attrs=[Attr('tag', 't:Code', 'required'), Attr('share', 't:Code')])], prefixes={'t': NS1})
    tree = sch.tree()
    # enumerations: two optional children of xs:restriction
    from xmltree import Opt as _Opt, E as _E
    restr = tree.children[0].children[-1]
    restr.children.append(_Opt(_E('xs:enumeration', {'value': 'A'}), nenum.var >= 1))
    restr.children.append(_Opt(_E('xs:enumeration', {'value': ''}), nenum.var >= 2))      # the empty string is a legal enumeration value
    restr.children.append(_Opt(_E('xs:enumeration', {'value': 'b c'}), nenum.var >= 3))
    sc = Scenario('R-facets-%s-%s' % ('attr' if as_attr else 'child', group), {'a.xsd': tree}, 'a.xsd', [x for x in sels.values() if isinstance(x, Selector)] + [nenum, base])
    return sc, Info(schemas={'a.xsd': sch}, facets=sels, nenum=nenum, base=base, simple=[('a.xsd', st)], subjects=[])


def q_three(tier='quick'):
    """two imported files BOTH define a type of the same local name; the start file's own type of that name is declared
    after its use; base= names one of the three by a symbolic prefix"""
    base_b = CT('Base', Seq([El('b_only', 'xs:string')]))
    base_c = CT('Base', Seq([El('c_only', 'xs:int')]))
    base_a = CT('Base', Seq([El('a_only', 'xs:boolean')]))
    sch_b = Schema(NS2, [base_b], prefixes={'b': NS2})
    sch_c = Schema(NS3, [base_c], prefixes={'c': NS3})
    bref = Selector('base_ref', ['a:Base', 'b:Base', 'c:Base'])
    der = CT('Derived', Seq([El('own', 'xs:string')]), base=bref)
    user = CT('User', Seq([El('u', bref)]))
    order = Selector('order', perms(3) if tier == 'thorough' else [(0, 1, 2), (2, 1, 0), (1, 0, 2)])
    sch_a = Schema(NS1, [der, user, base_a], prefixes={'a': NS1, 'b': NS2, 'c': NS3}, imports=[(NS2, 'b.xsd'), (NS3, 'c.xsd')], order=order)
    sc = Scenario('Q-three', {'a.xsd': sch_a, 'b.xsd': sch_b, 'c.xsd': sch_c}, 'a.xsd', [bref, order])
    return sc, Info(schemas={'a.xsd': sch_a, 'b.xsd': sch_b, 'c.xsd': sch_c}, bref=bref, three=True, simple=[], subjects=[])


def q_nested(tier='quick'):
    """the target namespace has NO prefix on the schema root; a prefix for it is bound on a nested element (the
    complexType that uses it), next to a prefix of an imported namespace"""
    item_a = CT('Item', Seq([El('ia', 'xs:string')]))
    note = GEl('Note', content=Seq([El('text', 'xs:string')]))
    item_b = CT('Item', Seq([El('ib', 'xs:int')]))
    sch_b = Schema(NS2, [item_b], prefixes={'b': NS2})
    order_t = CT('Order', Seq([El('own', 'tns:Item'), El('other', 'b:Item'), El(ref='tns:Note')]), ns={'tns': NS1})
    order = Selector('order', perms(3) if tier == 'thorough' else [(0, 1, 2), (2, 1, 0), (2, 0, 1)])
    sch_a = Schema(NS1, [item_a, note, order_t], prefixes={'b': NS2}, imports=[(NS2, 'b.xsd')], order=order)
    sc = Scenario('Q-nested', {'a.xsd': sch_a, 'b.xsd': sch_b}, 'a.xsd', [order])
    return sc, Info(schemas={'a.xsd': sch_a, 'b.xsd': sch_b}, nested=True, simple=[], subjects=[])


def q_kinds(tier='quick'):
    """a global ELEMENT with an anonymous type and a complexType share the local name Thing (the doc/literal wrapper habit); a type
    declared before both extends t:Thing: base= denotes the TYPE. Declaration order of the three symbolic."""
    thing_el = GEl('Thing', content=Seq([El('from_element', 'xs:string')]))
    thing_ty = CT('Thing', Seq([El('from_type', 'xs:int')]), attrs=[Attr('rev', 'xs:int')])
    derived = CT('Derived', Seq([El('own', 'xs:boolean')]), base='t:Thing')
    order = Selector('order', perms(3))
    sch = Schema(NS1, [thing_el, thing_ty, derived], prefixes={'t': NS1}, order=order)
    sc = Scenario('Q-kinds', {'a.xsd': sch}, 'a.xsd', [order])
    return sc, Info(schemas={'a.xsd': sch}, kinds=True, simple=[], subjects=[])


def q_rebound(tier='quick'):
    """a prefix bound on the schema root to the target namespace is bound AGAIN, to the imported namespace, on one complexType:
    inside that type the prefix denotes the imported namespace (XML namespace scoping)"""
    item_a = CT('Item', Seq([El('ia', 'xs:string')]))
    item_b = CT('Item', Seq([El('ib', 'xs:int')]))
    sch_b = Schema(NS2, [item_b], prefixes={'b': NS2})
    plain = CT('Plain', Seq([El('mine', 'p:Item')]))
    scoped = CT('Scoped', Seq([El('theirs', 'p:Item')]), ns={'p': NS2})
    order = Selector('order', perms(3) if tier == 'thorough' else [(0, 1, 2), (2, 1, 0), (1, 2, 0)])
    sch_a = Schema(NS1, [item_a, plain, scoped], prefixes={'p': NS1, 'b': NS2}, imports=[(NS2, 'b.xsd')], order=order)
    sc = Scenario('Q-rebound', {'a.xsd': sch_a, 'b.xsd': sch_b}, 'a.xsd', [order])
    return sc, Info(schemas={'a.xsd': sch_a, 'b.xsd': sch_b}, rebound=True, simple=[], subjects=[])


def n_shared(tier='quick'):
    """two imported files share ONE target namespace; all its components belong in the single module of that namespace,
    for both import orders"""
    shared = 'http://example.com/shop/types'
    cust = CT('CustomerType', Seq([El('name', 'xs:string')]))
    ordr = CT('OrderType', Seq([El('total', 'xs:int')]))
    sch_c = Schema(shared, [cust], prefixes={'t': shared})
    sch_o = Schema(shared, [ordr], prefixes={'t': shared})
    main = CT('Basket', Seq([El('customer', 't:CustomerType'), El('order', 't:OrderType')]))
    swap = Selector('import_order', [('customer.xsd', 'order.xsd'), ('order.xsd', 'customer.xsd')])
    scs = []
    for i, imp in enumerate(swap.options):
        sch_m = Schema('http://example.com/shop/main', [main], prefixes={'m': 'http://example.com/shop/main', 't': shared}, imports=[(shared, imp[0]), (shared, imp[1])])
        sc = Scenario('N-shared-%d' % i, {'main.xsd': sch_m, 'customer.xsd': sch_c, 'order.xsd': sch_o}, 'main.xsd', [])
        scs.append((sc, Info(schemas={'main.xsd': sch_m, 'customer.xsd': sch_c, 'order.xsd': sch_o}, shared=shared, simple=[], subjects=[])))
    return scs


def w_hdr_xns(tier='quick'):
    """two header parts whose elements live in DIFFERENT namespaces (one in an imported schema), in both binding orders"""
    sec = 'http://example.com/security'
    auth = GEl('AuthToken', content=Seq([El('token', 'xs:string')]))
    sch_s = Schema(sec, [auth], prefixes={'sec': sec})
    els = [body_el('GetQuoteRequest'), body_el('GetQuoteResponse'), GEl('TraceInfo', content=Seq([El('id', 'xs:string')]))]
    hsel = Selector('header_order', [('auth', 'trace'), ('trace', 'auth')])
    out = []
    for i, ho in enumerate(hsel.options):
        sch = Schema(NSW, els, prefixes={'sec': sec}, imports=[(sec, 'security.xsd')])
        msgs = [Msg('GetQuoteIn', [('parameters', 'tns:GetQuoteRequest'), ('auth', 'sec:AuthToken'), ('trace', 'tns:TraceInfo')]),
                Msg('GetQuoteOut', [('parameters', 'tns:GetQuoteResponse')])]
        op = Op('GetQuote', 'tns:GetQuoteIn', 'tns:GetQuoteOut', body_parts='parameters', headers=list(ho), action='http://example.com/a')
        w = Wsdl(NSW, sch, msgs, [op], prefixes={'sec': sec})
        sc = Scenario('W-hdr-xns-%d' % i, {'svc.wsdl': w.tree(), 'security.xsd': sch_s}, 'svc.wsdl', [])
        out.append((sc, Info(wsdl=w, svc='OrdersService', headers_ns={'AuthToken': sec, 'TraceInfo': NSW},
                             ops=[dict(name='GetQuote', body_el='GetQuoteRequest', headers=['AuthToken', 'TraceInfo'], has_output=True, out_el='GetQuoteResponse')])))
    return out


# ------------------------------------------------------------------------------------------------ C13: departures

QNAME_ATTRS = {'type', 'base', 'ref', 'element', 'message', 'binding', 'itemType'}


def departure_doc(xml_text, budget=1, tag=''):
    """a concrete document in which EVERY attribute may be missing, every element may be missing and every QName-valued
    attribute may dangle or point at its own component; at most `budget` departures at a time (z3 cardinality constraint)"""
    import z3
    from xmltree import parse_xml
    from sym import SymVal, G
    doc = parse_xml(xml_text)
    flags = []
    sels = []
    for idx, n in enumerate(doc.nodes):
        if n['kind'] != 'element':
            continue
        if idx != doc.nodes[0]['children'][0] and n['parent'] != 0:
            b = z3.Bool('%sdrop_el_%d_%s' % (tag, idx, n['tag']))
            flags.append(b)
            n['present'] = ('present-unless', b)
        new_attrs = []
        own_name = next((v for k, v, p in n['attrs'] if k == 'name'), None)
        for k, v, pres in n['attrs']:
            b = z3.Bool('%sdrop_at_%d_%s' % (tag, idx, k))
            flags.append(b)
            val = v
            if isinstance(v, str) and not k.startswith('xmlns'):
                # the value may also be empty or blank (legal for list-valued attributes such as parts="", and what a careless
                # edit leaves behind); QName-valued attributes may in addition dangle or point at their own component
                opts = [v]
                if k in QNAME_ATTRS:
                    pfx = v.split(':')[0] + ':' if ':' in v else ''
                    opts += [pfx + 'DoesNotExist'] + ([pfx + own_name] if own_name and pfx + own_name != v else [])
                opts += [x for x in ('', '  ') if x != v]
                sel = Selector('%sqn_%d_%s' % (tag, idx, k), opts)
                sels.append(sel)
                val = sel.sym()
            new_attrs.append((k, val, ('present-unless', b)))
        n['attrs'] = new_attrs
    dom = z3.And(*[sel.domain for sel in sels]) if sels else z3.BoolVal(True)
    return doc, flags, sels, dom


# ------------------------------------------------------------------------------------------------ C14: injection sites

IDENT_DOM = ['Item', 'type', 'Self', 'self', 'async', 'my-name', 'a.b', 'été', 'x*/ fn marker() {} /*', 'y /* z']
LIT_DOM = ['plain', 'a"b', 'a\\b', 'a\\nb', 'a{b}', '"; fn marker() {} //', 'see "#anchor"', 'x"#.to_string(), "injected".to_string(), r#"y']
URI_DOM = ['http://example.com/orders/v1', 'http://example.com/a"b', 'http://example.com/x{y}', 'http://example.com/a+b~c', 'urn:x:"q"',
           # alphanumeric for char::is_alphanumeric, but not a character of a Rust identifier
           'http://example.com/x\u00b2y']
URL_DOM = ['http://example.com/orders', 'http://example.com/a"b', 'http://example.com/a\\b', 'http://example.com/{x}',
           # a URL without authority keeps quotes, braces and backslashes verbatim when it is parsed and printed again
           'urn:hello:say"; pub fn marker() {} const _X: &str = "x\\y', 'urn:a{b}c']
DOC_DOM = ['plain words', 'two\nlines', 'cr\rhere', 'a */ b', '"quoted" \\ {braces}']


def _site(name, dom, active):
    return Selector(name, dom) if name in active else dom[0]


def inject_xsd(tier='quick', active=()):
    """every place where schema text of an XSD flows into the output is a symbolic site (those named in `active`)"""
    tname = _site('site_type_name', IDENT_DOM, active)
    mname = _site('site_member_name', IDENT_DOM, active)
    aname = _site('site_attribute_name', IDENT_DOM, active)
    sname = _site('site_simple_type_name', ['Code'] + IDENT_DOM[1:5], active)
    ev = _site('site_enumeration_value', LIT_DOM, active)
    fv = _site('site_facet_value', ['3', ABSENT, '3); fn marker() {} //', '-1', 'x', ' 12 ', '+5', '007', '1_000', '0x10', '1e3'], active)
    doc = _site('site_documentation', DOC_DOM, active)
    uri = _site('site_namespace_uri', URI_DOM, active)
    # a global element that another type refers to with ref=: its name becomes a field name, too
    rname = _site('site_ref_element_name', ['Remark', 'type', 'match', 'self', 'Loop', 'async'], active)
    st = ST(sname, 'xs:string', {'maxLength': fv}, enums=[ev], doc=doc)
    inner = CT(tname, Seq([El('v', 'xs:string')]))
    tref = smap(lambda n: 't:' + n, tname.sym()) if isinstance(tname, Selector) else 't:' + tname
    rref = smap(lambda n: 't:' + n, rname.sym()) if isinstance(rname, Selector) else 't:' + rname
    gel = GEl(rname, content=Seq([El('text', 'xs:string')]))
    outer = CT('Outer', Seq([El(mname, tref), El('plain', 'xs:int'), El(ref=rref)]), attrs=[Attr(aname, 'xs:string')], doc=doc)
    tagged = CT('Tagged', None, attrs=[Attr('k', 'xs:string')], doc=doc)
    sch = Schema(uri, [st, inner, gel, outer, tagged], prefixes={'t': uri})
    sels = [x for x in (tname, mname, aname, sname, ev, fv, doc, uri, rname) if isinstance(x, Selector)]
    sc = Scenario('inject-xsd:' + '+'.join(x.name[5:] for x in sels), {'a.xsd': sch}, 'a.xsd', sels)
    return sc, Info(sites=sels, literal_sites={'site_enumeration_value', 'site_namespace_uri', 'site_member_name', 'site_attribute_name', 'site_type_name', 'site_simple_type_name'},
                    also_benign={'site_facet_value': [1]})


def inject_wsdl(tier='quick', active=()):
    opn = _site('site_operation_name', ['GetQuote'] + IDENT_DOM[1:], active)
    svc = _site('site_service_name', ['OrdersService'] + IDENT_DOM[1:], active)
    eln = _site('site_element_name', ['GetQuoteRequest'] + IDENT_DOM[1:6], active)
    hpart = _site('site_header_part_name', ['auth'] + IDENT_DOM[1:6], active)
    loc = _site('site_location', URL_DOM, active)
    act = _site('site_soap_action', URL_DOM, active)
    els = [GEl(eln, content=Seq([El('symbol', 'xs:string')])), body_el('GetQuoteResponse'), GEl('AuthHeader', content=Seq([El('token', 'xs:string')]))]
    req_ref = smap(lambda e: 'tns:' + e, eln.sym()) if isinstance(eln, Selector) else 'tns:' + eln
    msgs = [Msg('GetQuoteIn', [('parameters', req_ref), (hpart, 'tns:AuthHeader')]), Msg('GetQuoteOut', [('parameters', 'tns:GetQuoteResponse')])]
    op = Op(opn, 'tns:GetQuoteIn', 'tns:GetQuoteOut', body_parts='parameters', headers=[hpart], action=act)
    sch = Schema(NSW, els, prefixes={})
    w = Wsdl(NSW, sch, msgs, [op], service=svc, location=loc)
    sels = [x for x in (opn, svc, eln, hpart, loc, act) if isinstance(x, Selector)]
    sc = Scenario('inject-wsdl:' + '+'.join(x.name[5:] for x in sels), {'svc.wsdl': w.tree()}, 'svc.wsdl', sels)
    return sc, Info(sites=sels, literal_sites={'site_location', 'site_soap_action', 'site_element_name'})


def inject_all(tier='quick'):
    out = []
    for grp in (('site_type_name', 'site_simple_type_name'), ('site_member_name', 'site_attribute_name'), ('site_enumeration_value', 'site_facet_value'),
                ('site_documentation',), ('site_namespace_uri',), ('site_ref_element_name',)):
        out.append(inject_xsd(tier, grp))
    for grp in (('site_operation_name', 'site_service_name'), ('site_element_name', 'site_header_part_name'), ('site_location', 'site_soap_action')):
        out.append(inject_wsdl(tier, grp))
    return out



def import_nolocation():
    """an import WITHOUT schemaLocation whose namespace is the target namespace of a sibling file: the sibling stays unreachable"""
    f0 = Schema('urn:f0', [CT('T0', Seq([El('x0', 'xs:string')]))], prefixes={'t': 'urn:f0'}, imports=[('urn:f1', ABSENT)])
    f1 = Schema('urn:f1', [CT('T1', Seq([El('x1', 'xs:string')]))], prefixes={'t': 'urn:f1'})
    start = Selector('start', ['f0.xsd'])
    from xmltree import build as _b, to_xml as _x
    # concrete documents are handed over as real XML text (code that looks at the raw text sees what it would see natively)
    sc = Scenario('imports-no-location', {'f0.xsd': _x(_b(f0.tree())), 'f1.xsd': _x(_b(f1.tree()))}, start, [start])
    return sc, Info(schemas={'f0.xsd': f0, 'f1.xsd': f1}, names=['f0.xsd', 'f1.xsd'], edges={0: [], 1: []}, start=start, opts=[ABSENT, 'f0.xsd', 'f1.xsd'], nfiles=2, slots=0)


def s_shapes(tier='quick'):
    """content models other than "a sequence directly under the complexType": a choice or an xs:all as the content model, an
    xs:annotation among the particles, a choice directly under xs:extension; occurrence of one member symbolic"""
    mn = Selector('member_min', [ABSENT, '0', '1'])
    top_choice = CT('TopChoice', Choice([El('a', 'xs:string'), El('b', 'xs:int')]))
    top_all = CT('TopAll', All([El('x', 'xs:string'), El('y', 'xs:int', mn)]), attrs=[Attr('k', 'xs:string')])
    annotated = CT('Annotated', Seq([Note('about the members'), El('m', 'xs:string'), Note('between'), El('n', 'xs:int', mn)]))
    ext_choice = CT('ExtChoice', Choice([El('p', 'xs:string'), El('q', 'xs:long')]), base='t:TopAll')
    sch = Schema(NS1, [top_choice, top_all, annotated, ext_choice], prefixes={'t': NS1})
    sc = Scenario('S-shapes', {'a.xsd': sch}, 'a.xsd', [mn])
    return sc, Info(schemas={'a.xsd': sch}, subjects=[('a.xsd', top_choice), ('a.xsd', top_all), ('a.xsd', annotated)],
                    derived=[('a.xsd', ext_choice, ('a.xsd', top_all))], anon=[], simple=[], bases={'TopAll': None, 'ExtChoice': ('a.xsd', top_all)})


def s_typenames(tier='quick'):
    """the NAME of a user type, used both where it is declared and where it is referenced (type=, element ref=), over
    spellings that PascalCase changes: acronyms, snake / kebab case, digits"""
    # 'date' / 'language': user types named like XSD builtins; 'xmlData': a name that starts with xml but is no xml: reference
    tn = Selector('type_name', ['Inner', 'HTTPStatus', 'ISOCurrency', 'inner_type', 'inner-type', 'Inner2Go', 'innerType', 'date', 'language'])
    gn = Selector('element_name', ['Note', 'HTTPNote', 'note_text', 'xmlData'])
    inner = CT(tn, Seq([El('b', 'xs:int')]))
    gel = GEl(gn, content=Seq([El('token', 'xs:string')]), doc='a documented global element with an anonymous type')
    tref = smap(lambda n: 't:' + n, tn.sym())
    gref = smap(lambda n: 't:' + n, gn.sym())
    holder = CT('Holder', Seq([El('first', tref), El(ref=gref), El('many', tref, '0', 'unbounded')]))
    sch = Schema(NS1, [inner, gel, holder], prefixes={'t': NS1})
    sc = Scenario('S-typenames', {'a.xsd': sch}, 'a.xsd', [tn, gn])
    return sc, Info(schemas={'a.xsd': sch}, subjects=[('a.xsd', holder), ('a.xsd', inner)], anon=[('a.xsd', gel)], simple=[])


def w_out_hdr(tier='quick'):
    """request AND response carry a header; both messages call the header part `context` but refer to different elements"""
    els = [body_el('LookupRequest'), body_el('LookupResponse'), GEl('RequestContext', content=Seq([El('rid', 'xs:string')])),
           GEl('ResponseContext', content=Seq([El('sid', 'xs:string')]))]
    msgs = [Msg('LookupIn', [('parameters', 'tns:LookupRequest'), ('context', 'tns:RequestContext')]),
            Msg('LookupOut', [('parameters', 'tns:LookupResponse'), ('context', 'tns:ResponseContext')])]
    op = Op('Lookup', 'tns:LookupIn', 'tns:LookupOut', body_parts='parameters', out_body_parts='parameters', headers=['context'], out_headers=['context'],
            action='http://example.com/a')
    sch = Schema(NSW, els, prefixes={})
    w = Wsdl(NSW, sch, msgs, [op])
    sc = Scenario('W-out-hdr', {'svc.wsdl': w.tree()}, 'svc.wsdl', [])
    return sc, Info(wsdl=w, svc='OrdersService',
                    ops=[dict(name='Lookup', body_el='LookupRequest', headers=['RequestContext'], has_output=True, out_el='LookupResponse', out_headers=['ResponseContext'])])
