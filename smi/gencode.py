"""SMI over the code zeep GENERATES: the native zeep (built from /repo) generates Rust for a fixture schema, that file is
compiled as its own crate with nightly to dump its MIR, and the interpreter executes the generated check_restrictions
impls (together with the verbatim helper module inside the generated file) on symbolic values."""
import os, re, shutil, subprocess, hashlib
import mirparse as M
import native
from interp import load_source_types
from common import *

GEN_DIR = os.path.join(BUILD, 'gen_mir')


def generate_and_dump(fixture_path, ctx):
    """-> (bodies, crate dir, generated text). Cached by the hash of the generated text."""
    name = os.path.splitext(os.path.basename(fixture_path))[0]
    work = os.path.join(GEN_DIR, name)
    src = os.path.join(work, 'src')
    os.makedirs(src, exist_ok=True)
    shutil.copyfile(fixture_path, os.path.join(work, os.path.basename(fixture_path)))
    out_rs = os.path.join(src, 'generated.rs')
    rc, out, _ = native.run_zeep(ctx.zeep, os.path.join(work, os.path.basename(fixture_path)), out_rs + '.new')
    if rc != 0:
        raise RuntimeError('native zeep fails on %s: %s' % (fixture_path, out[-400:]))
    text = open(out_rs + '.new').read()
    h = hashlib.sha256(text.encode()).hexdigest()[:16]
    mir_path = os.path.join(work, 'generated.%s.mir' % h)
    os.replace(out_rs + '.new', out_rs)
    if not (os.path.exists(mir_path) and os.path.getsize(mir_path) > 1000):
        toml = open(os.path.join(REPO, 'zeep-lib/Cargo.toml')).read()
        deps = re.search(r'\[dependencies\](.*?)(\n\[|\Z)', toml, re.S).group(1)
        keep = [l for l in deps.split('\n') if re.match(r'\s*(yaserde|yaserde_derive|xml-rs|log|reqwest|tokio)\b', l)]
        open(os.path.join(work, 'Cargo.toml'), 'w').write(
            '[package]\nname = "zeep-generated"\nversion = "0.1.0"\nedition = "2024"\n\n[workspace]\n\n[dependencies]\n%s\n' % '\n'.join(keep))
        shutil.copyfile(os.path.join(REPO, 'Cargo.lock'), os.path.join(work, 'Cargo.lock'))
        open(os.path.join(src, 'lib.rs'), 'w').write('#![allow(unused, clippy::all)]\npub mod generated;\n')
        with Lock('mir'):
            env = dict(ENV, CARGO_TARGET_DIR=native.MIR_TARGET)
            fp = os.path.join(native.MIR_TARGET, 'debug/.fingerprint')
            if os.path.isdir(fp):
                for f in os.listdir(fp):
                    if re.match(r'zeep-generated-[0-9a-f]+$', f):
                        shutil.rmtree(os.path.join(fp, f), ignore_errors=True)
            p = subprocess.run(['cargo', '+nightly', 'rustc', '--offline', '--lib', '--', '-Zunpretty=mir', '-C', 'debug-assertions=off', '-C', 'overflow-checks=on'],
                               cwd=work, env=env, stdout=subprocess.PIPE, stderr=subprocess.PIPE, text=True, timeout=1800)
            if p.returncode != 0 or len(p.stdout) < 100:
                raise RuntimeError('the generated code does not compile (nightly MIR dump):\n' + p.stderr[-2500:])
            for f in os.listdir(work):
                if f.startswith('generated.') and f.endswith('.mir'):
                    os.remove(os.path.join(work, f))
            open(mir_path, 'w').write(p.stdout)
    bodies = M.parse_mir(open(mir_path).read())
    load_source_types(src)
    return bodies, work, text


# ------------------------------------------------------------------------------------------------ fixture model + reference

XS = 'http://www.w3.org/2001/XMLSchema'
FACETS = ('minInclusive', 'maxInclusive', 'minExclusive', 'maxExclusive', 'length', 'minLength', 'maxLength')
INT_BASES = {'int': (-2**31, 2**31 - 1), 'integer': None, 'long': (-2**63, 2**63 - 1), 'short': (-2**15, 2**15 - 1)}


class FixtureModel:
    """what the fixture schema declares, read independently of zeep (simple types with their derivation chain,
    complex types with their members)"""

    def __init__(self, path):
        import xml.etree.ElementTree as ET
        root = ET.parse(path).getroot()
        q = lambda t: '{%s}%s' % (XS, t)
        self.simple = {}     # name -> (base local name, base is user type, {facet: value}, [enumeration])
        self.complex = {}    # name -> [(member name, type local name, is user type, min, max|None, is attribute)]
        for n in root:
            if n.tag == q('simpleType'):
                r = n.find(q('restriction'))
                base = r.attrib['base']
                fac, enum = {}, []
                for c in r:
                    loc = c.tag.split('}')[-1]
                    if loc in FACETS:
                        fac[loc] = int(c.attrib['value'])
                    elif loc == 'enumeration':
                        enum.append(c.attrib['value'])
                self.simple[n.attrib['name']] = (base.split(':')[-1], not base.startswith('xs:'), fac, enum)
            elif n.tag == q('complexType'):
                mem = []
                for c in n.iter():
                    if c.tag == q('element'):
                        t = c.attrib['type']
                        mx = c.attrib.get('maxOccurs', '1')
                        mem.append((c.attrib['name'], t.split(':')[-1], not t.startswith('xs:'), int(c.attrib.get('minOccurs', '1')), None if mx == 'unbounded' else int(mx), False))
                    elif c.tag == q('attribute'):
                        t = c.attrib['type']
                        mem.append((c.attrib['name'], t.split(':')[-1], not t.startswith('xs:'), 1 if c.attrib.get('use') == 'required' else 0, 1, True))
                self.complex[n.attrib['name']] = mem

    def chain(self, st):
        """the simple type and the user simple types it derives from, most derived first; and the built-in base"""
        out = []
        while st in self.simple:
            base, user, fac, enum = self.simple[st]
            out.append((st, fac, enum))
            if not user:
                return out, base
            st = base
        return out, st

    def lexically_valid(self, st, v):
        _, builtin = self.chain(st)
        if builtin in INT_BASES:
            return re.fullmatch(r'[+-]?[0-9]+', v) is not None
        return True

    def violates(self, st, v):
        """the first declared facet (own or inherited) that the lexically valid value v violates, or None"""
        ch, builtin = self.chain(st)
        for name, fac, enum in ch:
            for f, x in fac.items():
                if f in ('length', 'minLength', 'maxLength'):
                    n = len(v)          # XSD length of a string = number of characters (code points)
                    bad = (f == 'length' and n != x) or (f == 'minLength' and n < x) or (f == 'maxLength' and n > x)
                else:
                    i = int(v)
                    bad = (f == 'minInclusive' and i < x) or (f == 'maxInclusive' and i > x) or (f == 'minExclusive' and i <= x) or (f == 'maxExclusive' and i >= x)
                if bad:
                    return '%s of %s (%d)' % (f, name, x)
            if enum and v not in enum:
                return 'enumeration of %s %r' % (name, enum)
        return None

    def positions(self, root, max_depth=3):
        """leaf positions below the complex type root: [(path of member names, XSD type of the leaf, kinds along the path)]"""
        out = []

        def walk(ct, prefix, kinds, depth):
            for name, t, user, mn, mx, attr in self.complex[ct]:
                kind = 'vec' if mx is None or mx > 1 else ('opt' if mn == 0 else 'one')
                if user and t in self.complex:
                    if depth < max_depth:
                        walk(t, prefix + (name,), kinds + (kind,), depth + 1)
                else:
                    out.append((prefix + (name,), t, kinds + (kind,)))
        walk(root, (), (), 1)
        return out


def valid_value(fm, st):
    for v in ('ab', 'on', '5', 'abc', '1', 'x'):
        if fm.lexically_valid(st, v) and (st not in fm.simple or fm.violates(st, v) is None):
            return v
    raise RuntimeError('no valid sample value for ' + st)


# ------------------------------------------------------------------------------------------------ shape of the generated structs
def generated_structs(text):
    """{struct name: (module path, [(field, type text)])} read off the generated source"""
    out = {}
    mod = []
    depth = 0
    mod_depth = []
    for m in re.finditer(r'pub mod (\w+) \{|pub struct (\w+) \{(.*?)\n\}|[{}]', text, re.S):
        if m.group(1):
            mod.append(m.group(1))
            mod_depth.append(depth)
            depth += 1
        elif m.group(2):
            fields = re.findall(r'pub (\w+): ([^\n]+?),?\s*(?:\n|$)', m.group(3))
            out[m.group(2)] = ('::'.join(mod), [(f.replace('r#', ''), t.strip().rstrip(',')) for f, t in fields])
        elif m.group(0) == '{':
            depth += 1
        else:
            depth -= 1
            if mod_depth and mod_depth[-1] == depth:
                mod.pop()
                mod_depth.pop()
    return out


def type_parts(t):
    """'Option<mod_a::B>' -> ('opt', 'B'); 'Vec<..>' -> ('vec', ..); 'String' -> ('one', 'String')"""
    t = t.strip()
    m = re.fullmatch(r'(Option|Vec)<(.+)>', t)
    if m:
        return ('opt' if m.group(1) == 'Option' else 'vec'), m.group(2).strip()
    return 'one', t


class Builder:
    """instances of the generated structs as a small AST: ('str', v) | ('struct', Name, [(field, node)]) | ('some', n) |
    ('none',) | ('vec', [n]); valid everywhere except at the positions given in `at` {path: leaf value}"""

    def __init__(self, fm, structs):
        self.fm = fm
        self.structs = structs

    def simple_leaf(self, rust_type, xsd_type, v):
        name = rust_type.split('::')[-1]
        if name == 'String':
            return ('str', v)
        if name not in self.structs:
            raise RuntimeError('generated type %s not found' % name)
        fields = self.structs[name][1]
        if [f for f, _ in fields] != ['value']:
            raise RuntimeError('simple type %s is not generated as a one-field wrapper: %s' % (name, fields))
        return ('struct', name, [('value', self.simple_leaf(fields[0][1], xsd_type, v))])

    def inst(self, ct, at, prefix=()):
        fm = self.fm
        if ct not in self.structs:
            raise RuntimeError('generated struct %s not found' % ct)
        rust_fields = dict(self.structs[ct][1])
        decl = {name: (t, user, mn, mx, attr) for name, t, user, mn, mx, attr in fm.complex[ct]}
        if set(rust_fields) != set(decl):
            raise RuntimeError('members of generated struct %s %s differ from the declared ones %s' % (ct, sorted(rust_fields), sorted(decl)))
        out = []
        for fname, rtype in self.structs[ct][1]:
            t, user, mn, mx, attr = decl[fname]
            kind, inner = type_parts(rtype)
            here = [p for p in at if p[:len(prefix) + 1] == prefix + (fname,)]
            is_ct = user and t in fm.complex

            def mk(on):
                if is_ct:
                    return self.inst(t, at if on else {}, prefix + (fname,))
                if on:
                    return self.simple_leaf(inner, t, at[prefix + (fname,)])
                return self.simple_leaf(inner, t, valid_value(fm, t) if t in fm.simple else 'x')
            if kind == 'one':
                node = mk(bool(here))
            elif kind == 'opt':
                if here and not is_ct and at[prefix + (fname,)] is ABSENT:
                    node = ('none',)
                else:
                    node = ('some', mk(True)) if here else ('none',)
            else:
                # the position under test is the SECOND element (the loop must not stop after the first)
                node = ('vec', [mk(False), mk(True)]) if here else ('vec', [])
            out.append((fname, node))
        return ('struct', ct, out)


ABSENT = ('absent',)


def to_smi(node):
    from interp import Adt, RString, SOME, NONE, STRUCTS
    k = node[0]
    if k == 'str':
        return RString(node[1])
    if k == 'some':
        return SOME(to_smi(node[1]))
    if k == 'none':
        return NONE()
    if k == 'vec':
        return [to_smi(n) for n in node[1]]
    _, name, fields = node
    d = dict(fields)
    order = [o for o in STRUCTS[name] if set(o) == set(d)]
    if not order:
        raise RuntimeError('struct %s with fields %s is not in the generated source' % (name, sorted(d)))
    return Adt(name, 0, [to_smi(d[f]) for f in order[0]])


def rust_lit(s):
    return '"' + ''.join(c if (32 <= ord(c) < 127 and c not in '"\\') else '\\u{%x}' % ord(c) for c in s) + '"'


def to_rust(node, structs):
    k = node[0]
    if k == 'str':
        return '%s.to_string()' % rust_lit(node[1])
    if k == 'some':
        return 'Some(%s)' % to_rust(node[1], structs)
    if k == 'none':
        return 'None'
    if k == 'vec':
        return 'vec![%s]' % ', '.join(to_rust(n, structs) for n in node[1])
    _, name, fields = node
    mod = structs[name][0]
    kw = {'type', 'fn', 'mod', 'use', 'ref', 'match', 'self', 'in', 'as', 'box', 'move', 'loop'}
    return '%s::%s { %s }' % (mod, name, ', '.join('%s: %s' % (('r#' + f) if f in kw else f, to_rust(n, structs)) for f, n in fields))


# ------------------------------------------------------------------------------------------------ native driver for replay / validation
DRIVER_TARGET = os.path.join(BUILD, 'gen_driver_target')


def native_results(work, root, structs, cases):
    """compile the generated file with a main that builds each case and runs check_restrictions(None); -> list of
    'OK' | 'ERR <message>' | 'PANIC'"""
    d = os.path.join(GEN_DIR, os.path.basename(work) + '_driver')
    os.makedirs(os.path.join(d, 'src'), exist_ok=True)
    toml = open(os.path.join(work, 'Cargo.toml')).read().replace('name = "zeep-generated"', 'name = "zeep-generated-driver"')
    open(os.path.join(d, 'Cargo.toml'), 'w').write(toml)
    shutil.copyfile(os.path.join(work, 'Cargo.lock'), os.path.join(d, 'Cargo.lock'))
    shutil.copyfile(os.path.join(work, 'src/generated.rs'), os.path.join(d, 'src/generated.rs'))
    mod = structs[root][0]
    body = ['#![allow(unused, clippy::all)]', 'mod generated;', 'use generated::*;', 'use generated::restrictions::CheckRestrictions;', 'fn main() {']
    for i, c in enumerate(cases):
        body.append('    {')
        body.append('        let r = std::panic::catch_unwind(|| { let v = %s; v.check_restrictions(None) });' % to_rust(c, structs))
        body.append('        match r { Ok(Ok(())) => println!("%d OK"), Ok(Err(e)) => println!("%d ERR {}", e), Err(_) => println!("%d PANIC") }' % (i, i, i))
        body.append('    }')
    body.append('}')
    open(os.path.join(d, 'src/main.rs'), 'w').write('\n'.join(body) + '\n')
    with Lock('gen_driver'):
        rc, out, _ = run(['cargo', 'build', '--offline', '--target-dir', DRIVER_TARGET], cwd=d, timeout=1800)
        if rc != 0:
            raise RuntimeError('the generated code (or the driver built around it) does not compile:\n' + out[-3000:])
        rc, out, _ = run([os.path.join(DRIVER_TARGET, 'debug/zeep-generated-driver')], timeout=300)
    res = {}
    for l in out.split('\n'):
        m = re.match(r'(\d+) (OK|ERR .*|PANIC)$', l)
        if m:
            res[int(m.group(1))] = m.group(2)
    return [res.get(i) for i in range(len(cases))]
