"""SMI over the code zeep GENERATES: the native zeep (built from /repo) generates Rust for a fixture schema, that file is
compiled as its own crate with nightly to dump its MIR, and the interpreter executes the generated check_restrictions
impls (together with the verbatim helper module inside the generated file) on symbolic values."""
import os, re, shutil, subprocess, hashlib
import mirparse as M
import native
from interp import load_source_types
from common import *

GEN_DIR = os.path.join(BUILD, 'gen_mir')


def generate_and_dump(fixture_path, ctx):
    """-> (bodies, crate dir, generated text). Cached by the hash of the generated text."""
    name = os.path.splitext(os.path.basename(fixture_path))[0]
    work = os.path.join(GEN_DIR, name)
    src = os.path.join(work, 'src')
    os.makedirs(src, exist_ok=True)
    shutil.copyfile(fixture_path, os.path.join(work, os.path.basename(fixture_path)))
    out_rs = os.path.join(src, 'generated.rs')
    rc, out, _ = native.run_zeep(ctx.zeep, os.path.join(work, os.path.basename(fixture_path)), out_rs + '.new')
    if rc != 0:
        raise RuntimeError('native zeep fails on %s: %s' % (fixture_path, out[-400:]))
    text = open(out_rs + '.new').read()
    h = hashlib.sha256(text.encode()).hexdigest()[:16]
    mir_path = os.path.join(work, 'generated.%s.mir' % h)
    os.replace(out_rs + '.new', out_rs)
    if not (os.path.exists(mir_path) and os.path.getsize(mir_path) > 1000):
        toml = open(os.path.join(REPO, 'zeep-lib/Cargo.toml')).read()
        deps = re.search(r'\[dependencies\](.*?)(\n\[|\Z)', toml, re.S).group(1)
        keep = [l for l in deps.split('\n') if re.match(r'\s*(yaserde|yaserde_derive|xml-rs|log|reqwest|tokio)\b', l)]
        open(os.path.join(work, 'Cargo.toml'), 'w').write(
            '[package]\nname = "zeep-generated"\nversion = "0.1.0"\nedition = "2024"\n\n[workspace]\n\n[dependencies]\n%s\n' % '\n'.join(keep))
        shutil.copyfile(os.path.join(REPO, 'Cargo.lock'), os.path.join(work, 'Cargo.lock'))
        open(os.path.join(src, 'lib.rs'), 'w').write('#![allow(unused, clippy::all)]\npub mod generated;\n')
        with Lock('mir'):
            env = dict(ENV, CARGO_TARGET_DIR=native.MIR_TARGET)
            fp = os.path.join(native.MIR_TARGET, 'debug/.fingerprint')
            if os.path.isdir(fp):
                for f in os.listdir(fp):
                    if re.match(r'zeep-generated-[0-9a-f]+$', f):
                        shutil.rmtree(os.path.join(fp, f), ignore_errors=True)
            p = subprocess.run(['cargo', '+nightly', 'rustc', '--offline', '--lib', '--', '-Zunpretty=mir', '-C', 'debug-assertions=off', '-C', 'overflow-checks=on'],
                               cwd=work, env=env, stdout=subprocess.PIPE, stderr=subprocess.PIPE, text=True, timeout=1800)
            if p.returncode != 0 or len(p.stdout) < 100:
                raise RuntimeError('the generated code does not compile (nightly MIR dump):\n' + p.stderr[-2500:])
            for f in os.listdir(work):
                if f.startswith('generated.') and f.endswith('.mir'):
                    os.remove(os.path.join(work, f))
            open(mir_path, 'w').write(p.stdout)
    bodies = M.parse_mir(open(mir_path).read())
    load_source_types(src)
    return bodies, work, text
