"""SMI session: MIR of the current tree, machine factory, entry points (read_xml / write_xml), native cross-check."""
import os, re, tempfile, time
import z3
import mirparse as M
import native
from interp import *
from models import SMI, explore, clone_val
from sym import Selector, SymVal
from xmltree import XDoc, parse_xml, to_xml, build
from common import *

_CTX = None


class Ctx:
    pass


def context():
    """parse the MIR of /repo's working tree once per process"""
    global _CTX
    if _CTX is not None:
        return _CTX
    t0 = time.time()
    lib, binp = native.dump_mir()
    c = Ctx()
    c.bodies = M.parse_mir(open(lib).read())
    c.bin_bodies = M.parse_mir(open(binp).read())
    ENUMS_BEFORE = dict(ENUMS)
    load_source_types(os.path.join(REPO, 'zeep-lib/src'))
    load_source_types(os.path.join(REPO, 'zeep/src'))
    load_std_enums()
    c.zeep = native.build_zeep()
    c.header = native_header(c.zeep)
    c.n_bodies = len([b for b in c.bodies.values() if b.kind == 'fn'])
    c.load_s = time.time() - t0
    _CTX = c
    return c


def native_header(zeep):
    """the const_format-built file header is an environment constant: read from the native binary's output"""
    d = tempfile.mkdtemp(prefix='zeep-verif-hdr.')
    try:
        p = os.path.join(d, 'h.xsd')
        open(p, 'w').write('<xs:schema xmlns:xs="http://www.w3.org/2001/XMLSchema" targetNamespace="urn:h"></xs:schema>')
        rc, out, _ = native.run_zeep(zeep, p, os.path.join(d, 'h.rs'))
        if rc != 0:
            raise RuntimeError('native zeep failed on the header probe: ' + out[-500:])
        txt = open(os.path.join(d, 'h.rs')).read()
        m = re.search(r'\A.*?pub const SOAP_ENCODING[^\n]*\n', txt, re.S)
        if not m:
            # header changed shape: everything before the first module / helper
            k = txt.find('pub mod ')
            return txt[:k]
        return m.group(0)
    finally:
        rmtree(d)


def machine(ctx=None, binary=False):
    ctx = ctx or context()
    bodies = ctx.bodies
    if binary:
        bodies = dict(ctx.bodies)
        bodies.update(ctx.bin_bodies)
    m = SMI(bodies, REPO)
    m.env['consts'] = {'write_xml::HEADER': ctx.header}
    return m


def make_files(m, files, start, order=None):
    """FilesToRead built through the real constructors (Files::new / Files::add / FilesToRead::new).
    files: {name: text | XDoc}; XDocs are registered under a token text."""
    names = list(order or files.keys())

    def text_of(name):
        v = files[name]
        if isinstance(v, XDoc):
            tok = '\x00DOC:%s' % name
            m.parse_registry[tok] = v
            return tok
        return v
    first = names[0]
    fs = m.call('Files::new', [first, text_of(first)])
    for n in names[1:]:
        m.call('Files::add', [Ref([fs], 0), n, text_of(n)])
    return m.call('FilesToRead::new', [start, fs])


def read_xml(m, ftr):
    return m.call('XmlReader::read_xml', [Ref([ftr], 0)])


def write_xml(m, doc, sink=None):
    sink = sink or Sink()
    w = m.impls[('RustDocument', 'write_xml', 'WriteXml')]
    r = m.run(w, [Ref([doc], 0), Ref([sink], 0)])
    return r, sink


def generate(m, files, start, order=None, sink=None):
    """read + write; returns ('err', e) | ('ok', sink)"""
    ftr = make_files(m, files, start, order)
    r = read_xml(m, ftr)
    if r.variant != 0:
        return ('read_err', r.fields[0])
    r2, sink = write_xml(m, r.fields[0], sink)
    if r2.variant != 0:
        return ('write_err', r2.fields[0], sink)
    return ('ok', sink, r.fields[0])


def rope_text(m, sink):
    """concrete text of a sink whose rope is fully concrete"""
    parts = sink.rope
    if all(isinstance(p, str) for p in parts):
        return ''.join(parts)
    raise Unsupported('rope_text on symbolic rope')


def native_generate(ctx, files, start, keep=None):
    """run the natively built zeep on concrete files; returns (rc, output text or None, stdout/stderr)"""
    d = tempfile.mkdtemp(prefix='zeep-verif-nat.')
    try:
        for n, t in files.items():
            p = os.path.join(d, n)
            os.makedirs(os.path.dirname(p), exist_ok=True)
            open(p, 'w').write(t)
        outp = os.path.join(d, '__out.rs')
        rc, out, _ = native.run_zeep(ctx.zeep, os.path.join(d, start), outp)
        txt = None
        if rc == 0 and os.path.exists(outp):
            txt = open(outp).read()
        return rc, txt, out
    finally:
        rmtree(d)


def op_blocks_normalised(text):
    """output modulo the order of operation blocks / methods (HashMap iteration order): a canonical form"""
    parts = re.split(r'(?=\n/\* [^\n]* \*/\n)', text)
    head, blocks = parts[0], parts[1:]
    tail = ''
    if blocks:
        # the last block runs into the services / helpers: cut at the first 'pub struct <Service> {\n    pub client'
        last = blocks[-1]
        k = last.find('\npub struct ')
        km = re.search(r'\npub struct \w+ \{\n    pub client: reqwest::Client', last)
        if km:
            tail = last[km.start() + 1:]
            blocks[-1] = last[:km.start() + 1]
    # methods inside the service impl are unordered as well
    def norm_tail(t):
        ms = re.split(r'(?=pub async fn )', t)
        if len(ms) <= 2:
            return t
        head2, meths = ms[0], ms[1:]
        lastm = meths[-1]
        k = lastm.find('\n}\n}\n')
        rest = ''
        if k >= 0:
            rest = lastm[k + 3:]
            meths[-1] = lastm[:k + 3]
        return head2 + ''.join(sorted(meths)) + rest
    return head + ''.join(sorted(blocks)) + norm_tail(tail)


FIXTURES = [
    ('zeep-lib/test-data/single-complex.xsd', []),
    ('zeep-lib/test-data/extensions.xsd', []),
    ('zeep-lib/test-data/forward-pointing-type.xsd', []),
    ('zeep-lib/test-data/use-of-groups.xsd', []),
    ('zeep-lib/test-data/single-simple-with-nested-tns.xsd', []),
    ('resources/simple/simple.xsd', []),
    ('resources/hello/hello.wsdl', []),
    ('zeep-lib/test-data/tempconverter.wsdl', []),
    ('resources/number_services/number_services.wsdl', []),
]


def validate_against_native(ctx, fixtures=None, log=None):
    """concrete mode: SMI must reproduce the native binary byte for byte on the repository's own inputs
    (multi-operation WSDLs modulo the order of operation blocks). Returns (n_ok, mismatches)"""
    ok = 0
    bad = []
    for rel, sibs in (fixtures or FIXTURES):
        path = os.path.join(REPO, rel)
        if not os.path.exists(path):
            continue
        name = os.path.basename(path)
        files = {name: open(path).read()}
        d = os.path.dirname(path)
        for f in sorted(os.listdir(d)):
            if f.endswith('.xsd') and f != name:
                files[f] = open(os.path.join(d, f)).read()
        rc, nat, nout = native_generate(ctx, files, name)
        m = machine(ctx)
        try:
            r = generate(m, files, name)
        except Panic as e:
            r = ('panic', e)
        if r[0] == 'ok':
            mine = rope_text(m, r[1])
            if rc == 0 and (mine == nat or op_blocks_normalised(mine) == op_blocks_normalised(nat)):
                ok += 1
            else:
                bad.append((rel, 'outputs differ (native rc=%s)' % rc))
        else:
            if rc != 0:
                ok += 1     # both fail
            else:
                bad.append((rel, 'SMI %s but native succeeded' % (r[0],)))
        if log:
            log('validated %s: %s' % (rel, 'ok' if not bad or bad[-1][0] != rel else bad[-1][1]))
    return ok, bad
