"""SMI: symbolic interpreter for rustc MIR (-Zunpretty=mir text), decision-replay forking, z3 as decider.

Strict: an unknown callee / variant / constant / projection raises Unsupported (the check becomes inconclusive);
nothing is defaulted."""
import re, sys, itertools
import z3
import mirparse as M
from sym import SymVal, G, TRUE, g_and, g_or, lift, smap, sym_true_cond, Infeasible, Selector

sys.setrecursionlimit(100000)


def _int_consts(e, acc=None, seen=None):
    """names of the uninterpreted Int constants of a z3 expression"""
    acc = set() if acc is None else acc
    seen = set() if seen is None else seen
    if e.get_id() in seen:
        return acc
    seen.add(e.get_id())
    if z3.is_const(e) and e.decl().kind() == z3.Z3_OP_UNINTERPRETED and z3.is_int(e):
        acc.add(e.decl().name())
    for c in e.children():
        _int_consts(c, acc, seen)
    return acc


class Panic(Exception):
    def __init__(self, kind, where=''):
        Exception.__init__(self, kind)
        self.kind = kind
        self.where = where


class Unsupported(Exception):
    pass


class Divergence(Exception):
    pass


class Adt:
    __slots__ = ('name', 'variant', 'fields')

    def __init__(self, name, variant, fields):
        self.name = name
        self.variant = variant
        self.fields = fields

    def __repr__(self):
        return '%s#%s%r' % (self.name, self.variant, self.fields)


class Coro:
    def __init__(self, upvars):
        self.variant = 0
        self.store = {(None, i): v for i, v in enumerate(upvars)}


class Ref:
    __slots__ = ('cont', 'key')

    def __init__(self, cont, key):
        self.cont = cont
        self.key = key

    def get(self):
        return self.cont[self.key]

    def set(self, v):
        self.cont[self.key] = v

    def __repr__(self):
        return '&%r' % (self.get(),)


class RcRef(Ref):
    """an Rc / Arc allocation: a Ref with identity that survives clone (Rc::ptr_eq, strong sharing)"""
    __slots__ = ()


class RString:
    __slots__ = ('s',)

    def __init__(self, s):
        self.s = s

    def __repr__(self):
        return 'String(%r)' % (self.s,)


class Sink:
    """io::Write target: collects the write calls (rope); can fail at a symbolic call index"""

    def __init__(self, fail_at=None):
        self.rope = []
        self.n = 0
        self.fail_at = fail_at


class BufW:
    """std::io::BufWriter over a sink: what is written stays pending until flush / into_inner / drop (capacity is not modelled:
    a write never reaches the inner writer early). Drop writes the pending text and ignores the result, as std does."""

    def __init__(self, inner):
        self.inner = inner
        self.pending = []


class FmtArg:
    def __init__(self, kind, ref):
        self.kind = kind
        self.ref = ref


class FmtArgs:
    def __init__(self, template, args):
        self.template = template
        self.args = args


class It:
    """lazy iterator over a python generator (with one-item lookahead for Peekable)"""

    def __init__(self, gen):
        self.gen = gen
        self.peeked = []

    def next(self):
        if self.peeked:
            return self.peeked.pop(0)
        try:
            return next(self.gen)
        except StopIteration:
            return None

    def peek(self):
        if not self.peeked:
            try:
                self.peeked.append(next(self.gen))
            except StopIteration:
                return None
        return self.peeked[0]


class PyMap:
    """HashMap / BTreeMap model: association list. kind='hash': iteration order is an arbitrary permutation
    (symbolic when the machine says so), fixed as long as the map is not modified; kind='btree': sorted by key"""
    _ids = itertools.count()

    def __init__(self, kind='hash'):
        self.entries = []
        self.kind = kind
        self.id = next(PyMap._ids)
        self.order = None


class Atomic:
    def __init__(self, v):
        self.v = v


class Url:
    def __init__(self, s):
        self.s = s


class Opaque:
    """an environment object without structure (reqwest client, io::Error, ...)"""

    def __init__(self, kind, data=None):
        self.kind = kind
        self.data = data

    def __repr__(self):
        return '<%s %r>' % (self.kind, self.data)


ENUMS = {'Option': ['None', 'Some'], 'Result': ['Ok', 'Err'], 'ControlFlow': ['Continue', 'Break'],
         'Poll': ['Ready', 'Pending'], 'Ordering': ['Relaxed', 'Release', 'Acquire', 'AcqRel', 'SeqCst'],
         'AssertKind': ['Eq', 'Ne', 'Match'], 'Cow': ['Borrowed', 'Owned'],
         # log crate: Level has explicit discriminants starting at 1 (placeholder keeps index == discriminant)
         'Level': ['__unused0', 'Error', 'Warn', 'Info', 'Debug', 'Trace'], 'LevelFilter': ['Off', 'Error', 'Warn', 'Info', 'Debug', 'Trace']}
STRUCTS = {'Range': [['start', 'end']], 'RangeTo': [['end']], 'RangeFrom': [['start']], 'RangeToInclusive': [['end']]}
UNIT_STRUCTS = set()
VARIANT_KIND = {}      # (enum, variant) -> 'unit' | 'tuple' | 'struct'
GENERICS = {}          # fn name -> list of its own type-parameter names (None when ambiguous)


def _strip_rust(src):
    """remove comments, string literals' contents and #[...] attributes (bracket-balanced)"""
    out = []
    i = 0
    n = len(src)
    while i < n:
        c = src[i]
        if src.startswith('//', i):
            j = src.find('\n', i)
            i = n if j < 0 else j
        elif src.startswith('/*', i):
            j = src.find('*/', i)
            i = n if j < 0 else j + 2
        elif c == '"':
            j = i + 1
            while j < n and src[j] != '"':
                j += 2 if src[j] == '\\' else 1
            out.append('""')
            i = j + 1
        elif c == '#' and i + 1 < n and src[i + 1] in '[!':
            j = src.find('[', i)
            depth = 0
            while j < n:
                if src[j] == '"':
                    j += 1
                    while j < n and src[j] != '"':
                        j += 2 if src[j] == '\\' else 1
                elif src[j] == '[':
                    depth += 1
                elif src[j] == ']':
                    depth -= 1
                    if depth == 0:
                        break
                j += 1
            i = j + 1
        else:
            out.append(c)
            i += 1
    return ''.join(out)


def _balanced(src, i):
    """src[i] == '{' -> index of the matching '}'"""
    depth = 0
    j = i
    while j < len(src):
        if src[j] == '{':
            depth += 1
        elif src[j] == '}':
            depth -= 1
            if depth == 0:
                return j
        j += 1
    return len(src) - 1


def load_source_types(root):
    """enum variant lists and struct field orders are read from the crate's own source (MIR text has no type decls)"""
    import glob
    for f in glob.glob(root + '/**/*.rs', recursive=True):
        src = _strip_rust(open(f).read())
        for m in re.finditer(r'\benum (\w+)(?:<[^>{]*>)?\s*\{', src):
            name = m.group(1)
            k = _balanced(src, m.end() - 1)
            body = src[m.end():k]
            vs = []
            for x in M.split_top(body):
                mm = re.match(r'\s*(\w+)', x)
                if not mm:
                    continue
                vs.append(mm.group(1))
                rest = x.strip()[len(mm.group(1)):].lstrip()
                VARIANT_KIND[(name, mm.group(1))] = 'tuple' if rest.startswith('(') else 'struct' if rest.startswith('{') else 'unit'
                ms = re.match(r'\s*(\w+)\s*\{(.*)\}\s*$', x, re.S)
                if ms:
                    fs = [re.match(r'\s*(?:pub(?:\([a-z]+\))? )?(\w+)\s*:', y).group(1) for y in M.split_top(ms.group(2)) if re.match(r'\s*(?:pub(?:\([a-z]+\))? )?(\w+)\s*:', y)]
                    STRUCTS.setdefault(name + '::' + ms.group(1), []).append(fs)
            if name not in ('Option', 'Result'):
                ENUMS[name] = vs
        for m in re.finditer(r'\bstruct (\w+)(?:<[^>{;(]*>)?\s*(?:where[^{;]*)?\{', src):
            k = _balanced(src, m.end() - 1)
            body = src[m.end():k]
            fs = []
            for y in M.split_top(body):
                mm = re.match(r'\s*(?:pub(?:\([a-z]+\))? )?(\w+)\s*:', y)
                if mm:
                    fs.append(mm.group(1))
            STRUCTS.setdefault(m.group(1), []).append(fs)
        for m in re.finditer(r'\bstruct (\w+);', src):
            UNIT_STRUCTS.add(m.group(1))
        for m in re.finditer(r'\bfn\s+(\w+)\s*<([^>{(]*)>\s*\(', src):
            names = []
            for part in M.split_top(m.group(2)):
                part = part.strip()
                if part.startswith("'") or part.startswith('const '):
                    continue
                names.append(re.match(r'(\w+)', part).group(1))
            if m.group(1) in GENERICS and GENERICS[m.group(1)] != names:
                GENERICS[m.group(1)] = None
            else:
                GENERICS[m.group(1)] = names


def load_std_enums():
    import glob, os
    for pat in ('~/.rustup/toolchains/nightly-*/lib/rustlib/src/rust/library/core/src/io/error.rs',
                '~/.rustup/toolchains/nightly-*/lib/rustlib/src/rust/library/std/src/io/error.rs'):
        for f in sorted(glob.glob(os.path.expanduser(pat))):
            src = _strip_rust(open(f).read())
            m = re.search(r'\bpub enum ErrorKind\s*\{', src)
            if m:
                k = _balanced(src, m.end() - 1)
                vs = [re.match(r'\s*(\w+)', x).group(1) for x in M.split_top(src[m.end():k]) if re.match(r'\s*(\w+)', x)]
                if 'BrokenPipe' in vs:
                    ENUMS['ErrorKind'] = vs
                    return


NONE = lambda: Adt('Option', 0, [])
SOME = lambda v: Adt('Option', 1, [v])
OK = lambda v: Adt('Result', 0, [v])
ERR = lambda e: Adt('Result', 1, [e])


def opt(v):
    return NONE() if v is None else SOME(v)


def deref(v):
    while isinstance(v, Ref):
        v = v.get()
    return v


def as_str(v):
    v = deref(v)
    if isinstance(v, RString):
        return v.s
    if isinstance(v, Adt) and v.name == 'Cow' and len(v.fields) == 1:
        return as_str(v.fields[0])      # an explicitly built Cow::Borrowed / Cow::Owned stands for its contents
    return v


import functools


def _impl_segment(c, i):
    """is the group `::<impl ...>` starting at i a path segment (followed by `::`) rather than the turbofish of the last name?"""
    depth = 0
    j = i + 2
    while j < len(c):
        if c[j] == '<':
            depth += 1
        elif c[j] == '>' and c[j - 1] != '-':
            depth -= 1
            if depth == 0:
                return c.startswith('::', j + 1)
        j += 1
    return True


@functools.lru_cache(maxsize=None)
def strip_generics(c):
    """remove turbofish groups ::<...> (nested); keeps <impl ...> groups"""
    out = []
    i = 0
    n = len(c)
    while i < n:
        if c.startswith('::<', i) and not (c.startswith('::<impl ', i) and _impl_segment(c, i)):
            depth = 0
            j = i + 2
            while j < n:
                if c[j] == '<':
                    depth += 1
                elif c[j] == '>' and c[j - 1] != '-':
                    depth -= 1
                    if depth == 0:
                        break
                j += 1
            i = j + 1
            continue
        out.append(c[i])
        i += 1
    return ''.join(out)


def strip_generics_path(c):
    out = []
    depth = 0
    for i, ch in enumerate(c):
        if ch == '<':
            depth += 1
        elif ch == '>' and c[i - 1] != '-':
            depth -= 1
        elif depth == 0:
            out.append(ch)
    return ''.join(out)


INT_RANGES = {'u8': (0, 255), 'u16': (0, 65535), 'u32': (0, 2 ** 32 - 1), 'u64': (0, 2 ** 64 - 1), 'usize': (0, 2 ** 64 - 1),
              'u128': (0, 2 ** 128 - 1), 'i8': (-128, 127), 'i16': (-32768, 32767), 'i32': (-2 ** 31, 2 ** 31 - 1),
              'i64': (-2 ** 63, 2 ** 63 - 1), 'isize': (-2 ** 63, 2 ** 63 - 1), 'i128': (-2 ** 127, 2 ** 127 - 1)}


def rope_pieces(parts):
    out = []
    for p in parts:
        if isinstance(p, str) and out and isinstance(out[-1], str):
            out[-1] += p
        else:
            out.append(p)
    return out


class Machine:
    def __init__(self, bodies, srcroot='/repo', allowed=None):
        self.b = bodies
        self.srcroot = srcroot
        self.pc = []                 # z3 path condition
        self.allowed = {}            # selector name -> set of still-possible indices (simplifier for lift/smap)
        self.decisions = []
        self.dpos = 0
        self.solver = z3.Solver()
        self.queries = 0
        self.steps = 0
        self.depth = 0
        self.max_depth = 60
        self.step_budget = 3_000_000
        self.events = []
        self.parse_registry = {}     # file text -> XDoc
        self.hash_order_symbolic = False
        self.env = {}                # environment constants (HEADER, ...) and stubs
        self.hooks = []              # extra model functions: f(machine, callee, args) -> value or NotImplemented
        self.closures = {}
        self.impl_list = []
        self.impls = {}
        self.const_cache = {}
        self.trace_calls = None
        self.departures = 0          # C13 departure mode: departures taken on this path
        self.departure_budget = None
        self.dep_selectors = {}      # selector name -> z3 var (QName retargeting selectors)
        self.dep_counted = set()
        self.subst = [{}]            # generic parameter -> concrete type text of the function being interpreted
        cached = Machine._index_memo.get(id(bodies))
        if cached is not None:
            self.closures, self.impl_list, self.impls = cached
        else:
            self._index()
            Machine._index_memo[id(bodies)] = (self.closures, self.impl_list, self.impls)

    _index_memo = {}

    # ------------------------------------------------------------------ indexing of bodies
    def _index(self):
        srccache = {}
        for n, b in self.b.items():
            if b.kind != 'fn':
                continue
            m = re.search(r'::\{closure#\d+\}$', n)
            if m and b.arg_types:
                t = b.arg_types[0]
                mm = re.search(r'\{(?:closure|coroutine)@[^}]*\}', t)
                if mm:
                    self.closures[mm.group()] = b
            m = re.search(r'<impl at ([^:]+):(\d+):(\d+): (\d+):(\d+)>::(\w+)$', n)
            if m:
                f, l1, c1, l2, c2, meth = m.group(1), int(m.group(2)), int(m.group(3)), int(m.group(4)), int(m.group(5)), m.group(6)
                if f not in srccache:
                    try:
                        srccache[f] = open(self.srcroot + '/' + f).read().split('\n')
                    except OSError:
                        srccache[f] = None
                src = srccache[f]
                if src is None:
                    continue
                if src[l1 - 1].lstrip().startswith('#[derive'):
                    tr = src[l1 - 1][c1 - 1:c2 - 1]
                    ty = None
                    for k in range(l1, min(l1 + 8, len(src))):
                        mt = re.search(r'(?:struct|enum)\s+(\w+)', src[k])
                        if mt:
                            ty = mt.group(1)
                            break
                    if ty:
                        self.impl_list.append(((ty, meth, tr), b))
                        if tr == 'Error' and meth == 'fmt':       # thiserror: derive(Error) generates Display
                            self.impl_list.append(((ty, meth, 'Display'), b))
                    continue
                if meth == 'from' and len(b.arg_types) == 1 and not re.match(r'\s*impl', src[l1 - 1][c1 - 1:]):
                    # attribute-generated From impl (thiserror #[from]): key it by the signature
                    self.impl_list.append(((b.ret_type.split('::')[-1], 'from', 'From'), b))
                    continue
                hdr = ' '.join(src[l1 - 1:l2])
                mm = re.search(r'impl(?:<[^>]*>)?\s+(?:([\w:]+)(?:<[^>]*>)?\s+for\s+)?&?([\w:]+)', hdr)
                if mm:
                    self.impl_list.append(((mm.group(2).split('::')[-1], meth, (mm.group(1) or '').split('::')[-1]), b))
                    b.impl_header = hdr
        for k, b in self.impl_list:
            self.impls.setdefault(k, b)

    def find_impl(self, ty_qual, meth, tr, argtype=None):
        ty = re.sub(r'<.*', '', ty_qual).split('::')[-1].lstrip('&')
        c = [b for (k, b) in self.impl_list if k == (ty, meth, tr)]
        if len(c) <= 1:
            return c[0] if c else None
        if argtype is not None:
            c2 = [b for b in c if b.arg_types and argtype in b.arg_types[0]]
            if len(c2) == 1:
                return c2[0]
        mods = [x for x in re.sub(r'<.*', '', ty_qual).split('::')[:-1]]
        best = max(c, key=lambda b: sum(1 for mname in mods if mname in b.name))
        return best

    # ------------------------------------------------------------------ forking
    def _check(self, extra):
        self.queries += 1
        self.solver.push()
        self.solver.add(*self.pc)
        self.solver.add(extra)
        r = self.solver.check()
        self.solver.pop()
        if r == z3.unknown:
            raise Unsupported('solver returned unknown')
        return r == z3.sat

    def branch(self, cond, narrow=None):
        """cond: z3 Bool. Returns the python truth value taken on this path (forks via decision replay).
        decisions holds True/False for free choices and ('F', v) for solver-forced ones (so that replays of a
        prefix need no solver calls)."""
        cond = z3.simplify(cond)
        if z3.is_true(cond):
            return True
        if z3.is_false(cond):
            return False
        if self.dpos < len(self.decisions):
            d = self.decisions[self.dpos]
            if isinstance(d, tuple):
                d = d[1]
        else:
            can_t = self._check(cond)
            can_f = self._check(z3.Not(cond)) if can_t else True
            if not can_t and not self._check(z3.Not(cond)):
                raise Infeasible()
            if can_t and can_f:
                d = True
                self.decisions.append(True)
            else:
                d = can_t
                self.decisions.append(('F', d))
        self.dpos += 1
        self.pc.append(cond if d else z3.Not(cond))
        if narrow is not None:
            name, ts, fs = narrow
            keep = ts if d else fs
            cur = self.allowed.get(name)
            self.allowed[name] = (cur & keep) if cur is not None else set(keep)
            if name in self.dep_selectors and name not in self.dep_counted and 0 not in self.allowed[name]:
                self.dep_counted.add(name)
                self.departures += 1
        elif self.dep_selectors and self.departure_budget is not None:
            # a condition over several retargeting selectors (e.g. two symbolic names compared with each other): ask the solver
            # which of them the path now forces away from the original value, and keep the cardinality bound
            for name in _int_consts(cond):
                if name in self.dep_selectors and name not in self.dep_counted and not self._check(self.dep_selectors[name] == 0):
                    self.dep_counted.add(name)
                    self.departures += 1
            if self.departures > self.departure_budget:
                raise Infeasible()
        return d

    def truth(self, v):
        if isinstance(v, bool):
            return v
        if isinstance(v, tuple) and len(v) == 2 and v[0] == 'present-unless':
            # departure mode: the item is present unless the drop flag is set; the budget is a cardinality bound kept here
            flag = v[1]
            if self.departure_budget is not None and self.departures >= self.departure_budget:
                self.pc.append(z3.Not(flag))
                return True
            dropped = self.branch(flag)
            if dropped:
                self.departures += 1
            return not dropped
        if isinstance(v, int):
            return v != 0
        if isinstance(v, SymVal):
            v = self.prune(v)
            if not isinstance(v, SymVal):
                return self.truth(v)
            cond, narrow = sym_true_cond(v)
            return self.branch(cond, narrow)
        if isinstance(v, z3.BoolRef):
            return self.branch(v)
        raise Unsupported('truth of %r' % (v,))

    def prune(self, v):
        """drop alternatives excluded by the path's selector narrowing"""
        if isinstance(v, SymVal) and self.dep_selectors and self.departure_budget is not None and self.departures >= self.departure_budget:
            for g, _ in v.alts:
                if g.cube:
                    for name in g.cube:
                        if name in self.dep_selectors and name not in self.dep_counted and self.allowed.get(name) != {0}:
                            if 0 in self.allowed.get(name, {0}):
                                self.allowed[name] = {0}
                                self.pc.append(self.dep_selectors[name] == 0)
        if isinstance(v, SymVal) and self.allowed:
            alts = lift(v, self.allowed)
            if len(alts) == 1:
                return alts[0][1]
            if len(alts) != len(v.alts):
                if not alts:
                    raise Infeasible()
                return SymVal(alts)
        return v

    def concretize(self, v):
        """fork over the alternatives of a SymVal; returns a concrete value on this path"""
        v = self.prune(v)
        if not isinstance(v, SymVal):
            return v
        alts = v.alts
        for i, (g, x) in enumerate(alts):
            if i == len(alts) - 1:
                # last alternative: forced (still constrain the path)
                self.pc.append(g.z)
                self._narrow_cube(g)
                return x
            nar = None
            if g.cube is not None and len(g.cube) == 1:
                (name, idxs), = g.cube.items()
                others = set()
                ok = True
                for g2, _ in alts:
                    if g2.cube is not None and len(g2.cube) == 1 and name in g2.cube:
                        others |= g2.cube[name]
                    else:
                        ok = False
                if ok:
                    nar = (name, set(idxs), others - set(idxs))
            if self.branch(g.z, nar):
                return x
        raise Infeasible()

    def _narrow_cube(self, g):
        if g.cube:
            for name, idxs in g.cube.items():
                cur = self.allowed.get(name)
                self.allowed[name] = (cur & set(idxs)) if cur is not None else set(idxs)

    def cstr(self, v):
        """concrete python str of a str-like value (forks on SymVal)"""
        v = as_str(v)
        if isinstance(v, SymVal):
            v = self.concretize(v)
        if not isinstance(v, str):
            raise Unsupported('a string was expected, got %r (closure / char-predicate patterns are only modelled for starts_with / ends_with / contains)' % (v,))
        return v

    def smap(self, f, *vals):
        return smap(f, *vals, allowed=self.allowed)

    # ------------------------------------------------------------------ places
    def place_ref(self, fr, pl):
        k = pl[0]
        if k == 'local':
            return Ref(fr, pl[1])
        if k == 'deref':
            r = self.place_ref(fr, pl[1]).get()
            if isinstance(r, Ref):
                return r
            if isinstance(r, (str, SymVal, bytes, list)):
                return Ref([r], 0)      # &str / &[u8] / a slice are modelled by value
            raise Unsupported('deref of %r' % (r,))
        if k == 'field':
            WR = r'std::mem::(ManuallyDrop|MaybeDangling|MaybeUninit)<'
            if re.match(WR, pl[3]) or (pl[1][0] == 'field' and re.match(WR, pl[1][3])):
                return self.place_ref(fr, pl[1])
            base = self.place_ref(fr, pl[1]).get()
            if isinstance(base, Coro):
                key = (pl[1][2] if pl[1][0] == 'downcast' else None, pl[2])
                base.store.setdefault(key, None)
                return Ref(base.store, key)
            if isinstance(base, Adt):
                if pl[2] >= len(base.fields):
                    raise Unsupported('field %d of %r' % (pl[2], base))
                return Ref(base.fields, pl[2])
            if isinstance(base, list):
                return Ref(base, pl[2])
            if isinstance(base, Ref) and re.search(r'Unique<|NonNull<|\*const |\*mut ', pl[3]):
                return Ref([base], 0)   # Box internals
            raise Unsupported('field of %r (type %s)' % (base, pl[3]))
        if k == 'downcast':
            return self.place_ref(fr, pl[1])
        if k == 'index':
            base = self.place_ref(fr, pl[1]).get()
            i = fr[pl[2][1]]
            if not isinstance(i, int):
                raise Unsupported('symbolic index')
            if i >= len(base):
                raise Panic('index out of bounds')
            return Ref(base, i)
        if k == 'constindex':
            base = self.place_ref(fr, pl[1]).get()
            base = deref(base) if not isinstance(base, list) else base
            m = re.match(r'(-?\d+) of (\d+)', pl[2])
            if m:
                i = int(m.group(1))
                if i < 0:
                    i = len(base) + i
                if not (0 <= i < len(base)):
                    raise Panic('slice pattern index out of bounds')
                return Ref(base, i)
            m = re.match(r'(\d+):(-?\d*)$', pl[2])
            if m:
                lo = int(m.group(1))
                hi = len(base) + int(m.group(2)) if m.group(2).startswith('-') else (int(m.group(2)) if m.group(2) else len(base))
                return Ref([base[lo:hi]], 0)
            raise Unsupported('constindex ' + pl[2])
        raise Unsupported('place ' + k)

    def operand(self, fr, op):
        k = op[0]
        if k in ('copy', 'move'):
            v = self.place_ref(fr, op[1]).get()
            if k == 'copy' and isinstance(v, Adt):
                return Adt(v.name, v.variant, list(v.fields))
            if k == 'copy' and isinstance(v, list):
                return list(v)
            return v
        c = op[1]
        t = c[0]
        if t in ('str', 'char'):
            return c[1]
        if t == 'bytes':
            return c[1]
        if t == 'int':
            return c[1]
        if t == 'bool':
            return c[1]
        if t == 'unit':
            return ()
        if t == 'item':
            return self.item_const(c[1])
        raise Unsupported('const %r' % (c,))

    def item_const(self, name):
        if name.startswith('ZeroSized: '):
            t = name[len('ZeroSized: '):]
            mm = re.search(r'\{closure@[^}]*\}', t)
            if mm:
                return Adt(mm.group(), 0, [])
            mm = re.search(r'\{(.*)\}$', t)
            if mm:
                return ('item', mm.group(1))
            seg = strip_generics_path(t).split('::')[-1]
            if seg in UNIT_STRUCTS or seg in ('PhantomData', 'Global', 'RandomState'):
                return Adt(seg, 0, [])
            return ('item', t)
        if name.endswith('log::STATIC_MAX_LEVEL') or name == 'STATIC_MAX_LEVEL':
            return Adt('LevelFilter', 5, [])
        mi = re.match(r'^(?:core::|std::)?(?:num::)?(?:<impl )?([iu](?:8|16|32|64|128|size))>?::(MAX|MIN)$', name)
        if mi:
            return INT_RANGES[mi.group(1)][1 if mi.group(2) == 'MAX' else 0]
        if name in self.const_cache:
            return self.const_cache[name]
        b = self.resolve_const(name)
        if b is not None:
            v = self.run(b, [])
            self.const_cache[name] = v
            return v
        seg = strip_generics_path(name).split('::')
        if seg[-1] in UNIT_STRUCTS:
            return Adt(seg[-1], 0, [])
        if len(seg) >= 2 and seg[-2] in ENUMS and seg[-1] in ENUMS[seg[-2]]:
            if VARIANT_KIND.get((seg[-2], seg[-1]), 'unit') == 'unit' and seg[-2] not in ('Option', 'Result') or (seg[-2] == 'Option' and seg[-1] == 'None'):
                return Adt(seg[-2], ENUMS[seg[-2]].index(seg[-1]), [])
            return ('item', name)        # a tuple-variant constructor used as a function
        if re.match(r'^\{?alloc\d+', name) or 'Indirect' in name or 'Scalar(' in name:
            raise Unsupported('raw constant ' + name[:60])
        return ('item', name)

    def resolve_const(self, name):
        for key, val in self.env.get('consts', {}).items():
            if key in name:
                class _B:
                    pass
                return None if val is None else self._const_body(val)
        if not hasattr(self, 'const_index'):
            self.const_index = {}
            for n, b in self.b.items():
                if b.kind == 'fn':
                    continue
                nn = n
                m = re.search(r'<impl at ([^:]+):(\d+):\d+: (\d+):\d+>', n)
                if m:
                    for (t, meth, tr), bb in self.impl_list:
                        if m.group(0) in bb.name:
                            nn = n.replace(m.group(0), t)
                            break
                self.const_index[nn] = b
        mq = re.match(r'<(.+?) as .+>::(.*)$', name)
        if mq:
            name = mq.group(1).split('::')[-1] + '::' + mq.group(2)
        cands_ = [name, strip_generics(name)]
        mi_ = re.search(r'<impl (?:.* for )?([\w:]+?)(?:<.*>)?>::(.*)$', name)
        if mi_:
            # `<impl Trait<W> for path::Type>::method::promoted[0]`: bodies are indexed as Type::method::promoted[0]
            cands_.append(mi_.group(1).split('::')[-1] + '::' + mi_.group(2))
        for cand in cands_:
            for nn, b in self.const_index.items():
                if nn == cand or cand.endswith('::' + nn) or nn.endswith('::' + cand):
                    return b
        return None

    def _const_body(self, val):
        b = M.Body('const', '<env>', '')
        b.blocks = {}
        b.env_value = val
        return b

    # ------------------------------------------------------------------ rvalues
    def rvalue(self, fr, rv, dest_ty=None):
        k = rv[0]
        if k == 'use':
            return self.operand(fr, rv[1])
        if k == 'ref':
            return self.place_ref(fr, rv[1])
        if k == 'tuple':
            return [self.operand(fr, o) for o in rv[1]]
        if k == 'array':
            return [self.operand(fr, o) for o in rv[1]]
        if k == 'repeat':
            v = self.operand(fr, rv[1])
            m = re.match(r'\s*(\d+)', rv[2])
            if not m:
                raise Unsupported('repeat count ' + rv[2])
            return [v for _ in range(int(m.group(1)))]
        if k == 'len':
            v = self.place_ref(fr, rv[1]).get()
            return len(deref(v))
        if k == 'discriminant':
            v = self.place_ref(fr, rv[1]).get()
            if isinstance(v, (Adt, Coro)):
                return v.variant
            raise Unsupported('discriminant of %r' % (v,))
        if k == 'adt':
            path = rv[1]
            args = [self.operand(fr, o) for o in rv[2]]
            return self.make_adt(path, args, dest_ty)
        if k == 'struct':
            name = rv[1]
            if name.startswith('{coroutine'):
                return Coro([self.operand(fr, o) for _, o in rv[2]])
            if name.startswith('{closure'):
                return Adt(re.search(r'\{closure@[^}]*\}', name).group(), 0, [self.operand(fr, o) for _, o in rv[2]])
            segs = [x for x in strip_generics_path(name).split('::') if x]
            vals = {f: self.operand(fr, o) for f, o in rv[2]}
            if len(segs) >= 2 and segs[-2] in ENUMS:
                if segs[-1] not in ENUMS[segs[-2]]:
                    raise Unsupported('unknown variant ' + name)
                order = next((fs for fs in STRUCTS.get(segs[-2] + '::' + segs[-1], []) if set(fs) == set(vals)), None)
                if order is None:
                    raise Unsupported('variant fields ' + name)
                return Adt(segs[-2], ENUMS[segs[-2]].index(segs[-1]), [vals[f] for f in order])
            nm = segs[-1]
            order = next((fs for fs in STRUCTS.get(nm, []) if set(fs) == set(vals)), None)
            if order is None:
                raise Unsupported('struct ' + nm + ' fields ' + ','.join(vals))
            return Adt(nm, 0, [vals[f] for f in order])
        if k == 'binop':
            a = self.operand(fr, rv[2])
            b = self.operand(fr, rv[3])
            return self.binop(rv[1], a, b, dest_ty)
        if k == 'unop':
            a = self.operand(fr, rv[2])
            if rv[1] == 'Not':
                if isinstance(a, bool):
                    return not a
                if isinstance(a, SymVal):
                    return self.smap(lambda x: not x, a)
                if isinstance(a, z3.BoolRef):
                    return z3.Not(a)
            if rv[1] == 'Neg' and isinstance(a, int):
                return -a
            if rv[1] == 'PtrMetadata':
                # length of a slice / str behind a (fat) pointer
                v = deref(a)
                if isinstance(v, RString):
                    v = v.s
                if isinstance(v, (str, SymVal)):
                    return self.smap(lambda t: len(t.encode()), v)
                if isinstance(v, (list, bytes)):
                    return len(v)
            raise Unsupported('unop %s on %r' % (rv[1], a))
        if k == 'cast':
            v = self.operand(fr, rv[1])
            tgt = rv[2].strip()
            if tgt == 'char' and isinstance(v, int) and not isinstance(v, bool):
                return chr(v)
            if tgt in INT_RANGES and isinstance(v, str) and len(v) == 1:
                return ord(v)
            if tgt in INT_RANGES and isinstance(v, bool):
                return int(v)
            if 'IntToInt' in rv[3] and isinstance(v, int) and not isinstance(v, bool):
                t = rv[2].strip()
                if t in INT_RANGES:
                    lo, hi = INT_RANGES[t]
                    if not (lo <= v <= hi):
                        span = hi - lo + 1
                        v = (v - lo) % span + lo
                return v
            return v
        raise Unsupported('rvalue ' + k)

    def make_adt(self, path, args, dest_ty=None):
        if re.search(r' as (for<[^>]*> )?(unsafe )?(extern "[^"]*" )?fn\(', path):
            # a function item (or a tuple-variant constructor) coerced to a function pointer
            return ('item', path.split(' as ')[0].strip())
        segs = [x for x in strip_generics_path(path).split('::') if x]
        if len(segs) == 1 and dest_ty:
            # MIR prints variants of some foreign enums without their path (`_1 = BrokenPipe;`): the local's type decides
            en = strip_generics_path(dest_ty).split('::')[-1].strip()
            if en in ENUMS and segs[0] in ENUMS[en]:
                return Adt(en, ENUMS[en].index(segs[0]), args)
        if len(segs) >= 2 and segs[-2] in ENUMS:
            if segs[-1] not in ENUMS[segs[-2]]:
                raise Unsupported('unknown variant ' + path)
            return Adt(segs[-2], ENUMS[segs[-2]].index(segs[-1]), args)
        nm = segs[-1]
        if nm in UNIT_STRUCTS and not args:
            return Adt(nm, 0, [])
        if nm in STRUCTS or nm in ('Rc', 'Arc', 'Box', 'String', 'Vec', 'PhantomData', 'Range', 'RangeTo', 'RangeFrom', 'RangeInclusive', 'RangeFull'):
            return Adt(nm, 0, args)
        if len(segs) >= 2 and segs[-2][:1].isupper() and segs[-1][:1].isupper():
            raise Unsupported('unknown enum for aggregate ' + path)
        raise Unsupported('aggregate %s (type %s)' % (path, dest_ty))

    def binop(self, op, a, b, dest_ty=None):
        if isinstance(a, SymVal) or isinstance(b, SymVal):
            f = {'Eq': lambda x, y: x == y, 'Ne': lambda x, y: x != y, 'Lt': lambda x, y: x < y, 'Le': lambda x, y: x <= y,
                 'Gt': lambda x, y: x > y, 'Ge': lambda x, y: x >= y}.get(op)
            if f is None:
                raise Unsupported('binop %s on SymVal' % op)
            return self.smap(f, a, b)
        cmp = {'Eq': lambda x, y: x == y, 'Ne': lambda x, y: x != y, 'Lt': lambda x, y: x < y, 'Le': lambda x, y: x <= y,
               'Gt': lambda x, y: x > y, 'Ge': lambda x, y: x >= y}
        if op in cmp:
            # a byte taken from a str that stands for a &[u8] (as_bytes is modelled by value) compared with a u8
            if isinstance(a, str) and len(a) == 1 and isinstance(b, int) and not isinstance(b, bool) and ord(a) < 128:
                a = ord(a)
            if isinstance(b, str) and len(b) == 1 and isinstance(a, int) and not isinstance(a, bool) and ord(b) < 128:
                b = ord(b)
            return cmp[op](a, b)
        if op in ('Add', 'Sub', 'Mul', 'AddUnchecked', 'SubUnchecked', 'MulUnchecked'):
            r = a + b if op[0] == 'A' else a - b if op[0] == 'S' else a * b
            return r
        if op in ('AddWithOverflow', 'SubWithOverflow', 'MulWithOverflow'):
            r = a + b if op[0] == 'A' else a - b if op[0] == 'S' else a * b
            t = None
            if dest_ty:
                m = re.match(r'\((\w+), bool\)', dest_ty)
                if m:
                    t = m.group(1)
            if t not in INT_RANGES:
                raise Unsupported('overflow op without a typed destination: %r' % (dest_ty,))
            lo, hi = INT_RANGES[t]
            if isinstance(r, int):
                return [r, not (lo <= r <= hi)]
            return [r, z3.Or(r < lo, r > hi)]
        if op in ('BitAnd', 'BitOr', 'BitXor') and isinstance(a, bool) and isinstance(b, bool):
            return {'BitAnd': a and b, 'BitOr': a or b, 'BitXor': a != b}[op]
        if op in ('BitAnd', 'BitOr') and (isinstance(a, (bool, z3.BoolRef)) and isinstance(b, (bool, z3.BoolRef))):
            return z3.And(a, b) if op == 'BitAnd' else z3.Or(a, b)
        if op == 'Div' and isinstance(a, int) and isinstance(b, int):
            if b == 0:
                raise Panic('division by zero')
            return int(a / b) if (a < 0) != (b < 0) else a // b
        if op == 'Rem' and isinstance(a, int) and isinstance(b, int):
            if b == 0:
                raise Panic('remainder by zero')
            return a - b * (int(a / b) if (a < 0) != (b < 0) else a // b)
        if op == 'Cmp':
            return Adt('Ordering3', 0, [(a > b) - (a < b)])
        raise Unsupported('binop ' + op)

    # ------------------------------------------------------------------ calls
    _resolve_memo = {}

    def resolve(self, callee, args=None):
        key = (id(self.b), callee)
        memo = Machine._resolve_memo
        if key in memo:
            return memo[key]
        r = self._resolve(callee, args)
        memo[key] = r
        return r

    def _resolve(self, callee, args=None):
        if callee in self.b and self.b[callee].kind == 'fn':
            return self.b[callee]
        c = strip_generics(callee)
        if c in self.b and self.b[c].kind == 'fn':
            return self.b[c]
        m = re.match(r"<(.+) as ([^>]+?(?:<.*>)?)>::(\w+)$", c)
        if m:
            ty = m.group(1)
            trq = m.group(2)
            tr = re.sub(r'<.*', '', trq).split('::')[-1]
            argty = None
            mm = re.match(r'\w+<(.*)>$', trq.split('::')[-1])
            if mm:
                argty = mm.group(1).split('::')[-1]
            b = self.find_impl(ty, m.group(3), tr, argty)
            if b is None and re.fullmatch(r'[A-Z][A-Z0-9]{0,2}|Self', ty) and ty not in STRUCTS and ty not in ENUMS:
                return None      # a type parameter: dispatched on the runtime value (never the trait's default method)
            if b is None:
                # a provided (default) method of a trait declared in the crate: its body is named <path>::Trait::method
                cands = [bb for n, bb in self.b.items() if bb.kind == 'fn' and (n == '%s::%s' % (tr, m.group(3)) or n.endswith('::%s::%s' % (tr, m.group(3))))]
                if len(cands) == 1:
                    return cands[0]
            return b
        m = re.match(r"([\w:]+)::(\w+)$", c)
        if m:
            ty = m.group(1).split('::')[-1]
            for (t, meth, tr), b in self.impl_list:
                if t == ty and meth == m.group(2) and tr == '':
                    return b
            # free function in a module path (e.g. binding::read_port_operation)
            cands = [b for n, b in self.b.items() if b.kind == 'fn' and n.endswith('::' + c) or n == c]
            if len(cands) == 1:
                return cands[0]
        return None

    def call(self, callee, args):
        for h in self.hooks:
            r = h(self, callee, args)
            if r is not NotImplemented:
                return r
        b = self.resolve(callee, args)
        if b is not None:
            sub = self.generic_subst(callee)
            if sub:
                self.subst.append(sub)
                try:
                    return self.run(b, args)
                finally:
                    self.subst.pop()
            self.subst.append({})
            try:
                return self.run(b, args)
            finally:
                self.subst.pop()
        # generic dispatch on a type parameter (W, C, T, YI ...): resolve by the runtime value
        m = re.match(r"<([A-Z]\w{0,2}|Self) as ([\w:]+)(?:<.*>)?>::(\w+)$", strip_generics(callee))
        if m and args:
            r = self.dispatch_generic(m.group(2).split('::')[-1], m.group(3), args)
            if r is not NotImplemented:
                return r
        return self.model(callee, args)

    def generic_subst(self, callee):
        """type arguments of a call `name::<A, B>(..)` bound to the callee's own type-parameter names"""
        m = re.search(r'(\w+)::<(.*)>$', callee)
        if not m:
            return None
        names = GENERICS.get(m.group(1))
        if not names:
            return None
        tys = [t for t in M.split_top(m.group(2)) if not t.startswith("'")]
        if len(tys) != len(names):
            return None
        cur = self.subst[-1]
        return {n: self.apply_subst(t, cur) for n, t in zip(names, tys)}

    @staticmethod
    def apply_subst(text, sub):
        if not sub:
            return text
        return re.sub(r'\b(' + '|'.join(map(re.escape, sub)) + r')\b', lambda mm: sub[mm.group(1)], text)

    def dispatch_generic(self, trait, meth, args):
        v = deref(args[0])
        tyname = v.name if isinstance(v, Adt) else 'String' if isinstance(v, RString) else 'Vec' if isinstance(v, list) else 'bool' if isinstance(v, bool) else \
            'Node' if type(v).__name__ == 'XNode' else None
        if tyname is not None:
            b = self.find_impl(tyname, meth, trait)
            if b is not None:
                self.subst.append({})       # the impl's own type parameters are not the caller's
                try:
                    return self.run(b, args)
                finally:
                    self.subst.pop()
            if any(k[0] == tyname and k[2] == trait for k, _ in self.impl_list):
                # the impl exists but does not override the method: the trait's provided method
                cands = [bb for n, bb in self.b.items() if bb.kind == 'fn' and (n == '%s::%s' % (trait, meth) or n.endswith('::%s::%s' % (trait, meth)))]
                if len(cands) == 1:
                    self.subst.append({})
                    try:
                        return self.run(cands[0], args)
                    finally:
                        self.subst.pop()
        return NotImplemented

    def call_closure(self, f, args):
        f0 = deref(f)
        if isinstance(f0, tuple) and f0 and f0[0] == 'item':
            name = f0[1]
            segs = strip_generics_path(name).split('::')
            if len(segs) >= 2 and segs[-2] in ENUMS and segs[-1] in ENUMS[segs[-2]]:
                return Adt(segs[-2], ENUMS[segs[-2]].index(segs[-1]), list(args))
            return self.call(name, list(args))
        if isinstance(f0, Adt) and f0.name.startswith('{closure'):
            b = self.closures.get(f0.name)
            if b is None:
                raise Unsupported('closure body ' + f0.name)
            env = Ref([f0], 0) if b.arg_types[0].startswith('&') else f0
            return self.run(b, [env] + list(args))
        raise Unsupported('call_closure %r' % (f0,))

    # ------------------------------------------------------------------ run
    def run(self, body, args):
        if hasattr(body, 'env_value'):
            return body.env_value
        if not getattr(body, 'lowered', False):
            M.lower(body)
            body.lowered = True
        self.depth += 1
        if self.depth > self.max_depth:
            self.depth -= 1
            raise Divergence('call depth > %d in %s' % (self.max_depth, body.name))
        try:
            return self._run(body, args)
        finally:
            self.depth -= 1

    def _run(self, body, args):
        fr = {0: None}
        for i, a in enumerate(args):
            fr[i + 1] = a
        bb = 0
        lt = body.local_types
        while True:
            blk = body.blocks[bb]
            self.steps += 1 + len(blk['stmts'])
            if self.steps > self.step_budget:
                raise Divergence('step budget exceeded in ' + body.name)
            for st in blk['stmts']:
                k = st[0]
                if k == 'assign':
                    pl = st[1]
                    ty = lt.get(pl[1]) if pl[0] == 'local' else None
                    self.place_ref(fr, pl).set(self.rvalue(fr, st[2], ty))
                elif k == 'nop':
                    pass
                elif k == 'setdiscr':
                    self.place_ref(fr, st[1]).get().variant = st[2]
                else:
                    raise Unsupported('stmt ' + k)
            t = blk['term']
            k = t[0]
            if k == 'goto':
                bb = t[1]
            elif k == 'return':
                return fr[0]
            elif k == 'switch':
                v = self.operand(fr, t[1])
                bb = self.switch(v, t[2], t[3])
            elif k == 'call':
                callee = t[2]
                if self.subst[-1] and '<' in callee:
                    callee = self.apply_subst(callee, self.subst[-1])
                cargs = [self.operand(fr, a) for a in t[3]]
                if callee.startswith('move ') or callee.startswith('copy '):
                    # call through a fn pointer / closure held in a local
                    fv = self.operand(fr, M.parse_operand_str(callee))
                    r = self.call_closure(fv, cargs)
                else:
                    try:
                        r = self.call(callee, cargs)
                    except Unsupported as e:
                        if not getattr(e, 'where', None):
                            e.where = body.name
                            e.args = (e.args[0] + '  [in ' + body.name[-70:] + ']',)
                        raise
                    except Panic as e:
                        if not e.where:
                            e.where = body.name
                        raise
                if t[1] is not None:
                    self.place_ref(fr, t[1]).set(r)
                if t[4] is None:
                    raise Panic('diverging call ' + callee[:80], body.name)
                bb = t[4]
            elif k == 'drop':
                try:
                    dv = deref(self.place_ref(fr, t[1]).get())
                except Exception:
                    dv = None
                if isinstance(dv, BufW) and dv.pending:
                    self.model('BufWriter::drop', [dv])
                bb = t[2]
            elif k == 'assert':
                v = self.operand(fr, t[1])
                if isinstance(v, list):
                    v = v[0]
                ok = self.truth(v) == t[2]
                if not ok:
                    raise Panic('assert ' + t[3][:80], body.name)
                bb = t[4]
            elif k == 'unreachable':
                raise Panic('unreachable', body.name)
            elif k == 'yield':
                raise Unsupported('yield outside coroutine driver')
            else:
                raise Unsupported('term ' + k)

    def switch(self, v, targets, other):
        if isinstance(v, bool):
            v = int(v)
        if isinstance(v, int):
            r = targets.get(v, other)
            if r is None:
                raise Panic('switch without target')
            return r
        if isinstance(v, str) and len(v) == 1:
            r = targets.get(ord(v), other)
            return r
        if isinstance(v, (SymVal, z3.BoolRef)):
            if isinstance(v, SymVal) and not all(isinstance(x, bool) for x in v.values()):
                c = self.concretize(v)
                return self.switch(c, targets, other)
            d = self.truth(v)
            return targets.get(1 if d else 0, other)
        if isinstance(v, z3.ArithRef):
            for val, tgt in targets.items():
                if self.branch(v == val):
                    return tgt
            return other
        raise Unsupported('switch on %r' % (v,))
