"""Parser for rustc -Zunpretty=mir text (nightly 1.97) -- spike."""
import re, sys

class Body:
    def __init__(self, kind, name, header):
        self.kind=kind; self.name=name; self.header=header
        self.nargs=0; self.local_types={}; self.blocks={}; self.ret_type=None; self.arg_types=[]

def skip_balanced(s, i, stops):
    """advance from i until one of the stop chars at depth 0; returns index"""
    depth=0; n=len(s)
    while i<n:
        c=s[i]
        if c in '([{<':
            # '<' is ambiguous but types only
            depth+=1
        elif c in ')]}>':
            if depth==0 and c in stops: return i
            if c=='>' and i>0 and s[i-1]=='-':  # '->' in fn types
                pass
            else:
                depth-=1
        elif depth==0 and c in stops:
            return i
        i+=1
    return i

def parse_string_lit(s, i):
    # s[i]=='"'; returns (python str, next index)
    assert s[i]=='"'
    i+=1; out=[]
    while s[i]!='"':
        c=s[i]
        if c=='\\':
            i+=1; c=s[i]
            if c=='n': out.append('\n')
            elif c=='r': out.append('\r')
            elif c=='t': out.append('\t')
            elif c=='0': out.append('\0')
            elif c=='\\': out.append('\\')
            elif c=='"': out.append('"')
            elif c=="'": out.append("'")
            elif c=='x': out.append(chr(int(s[i+1:i+3],16))); i+=2
            elif c=='u':
                j=s.index('}',i); out.append(chr(int(s[i+2:j],16))); i=j
            else: raise ValueError('escape '+c)
        else: out.append(c)
        i+=1
    return ''.join(out), i+1

def parse_bytes_lit(s,i):
    # s[i:i+2]=='b"'
    st, j = parse_string_lit(s, i+1)
    return bytes(ord(c) for c in st), j

class P:
    def __init__(self, s): self.s=s; self.i=0
    def ws(self):
        while self.i<len(self.s) and self.s[self.i]==' ': self.i+=1
    def peek(self, t): self.ws(); return self.s.startswith(t, self.i)
    def eat(self, t):
        self.ws()
        if not self.s.startswith(t,self.i): raise ValueError('expected %r at %r'%(t,self.s[self.i:self.i+40]))
        self.i+=len(t)
    def rest(self): return self.s[self.i:]
    def done(self): self.ws(); return self.i>=len(self.s)

    def place(self):
        self.ws(); s=self.s
        if s[self.i]=='(':
            self.i+=1
            if self.peek('*'):
                self.eat('*'); base=self.place(); self.eat(')'); pl=('deref',base)
            else:
                base=self.place(); self.ws()
                if self.peek('as '):
                    self.eat('as '); j=skip_balanced(s,self.i,')'); var=s[self.i:j].strip(); self.i=j; self.eat(')')
                    pl=('downcast',base,var)
                elif self.peek('.'):
                    self.eat('.'); m=re.match(r'\d+',s[self.i:]); idx=int(m.group()); self.i+=m.end()
                    self.eat(':'); j=skip_balanced(s,self.i,')'); ty=s[self.i:j].strip(); self.i=j; self.eat(')')
                    pl=('field',base,idx,ty)
                else:
                    self.eat(')'); pl=base
        else:
            m=re.match(r'_(\d+)',s[self.i:])
            if not m: raise ValueError('place at %r'%s[self.i:self.i+40])
            self.i+=m.end(); pl=('local',int(m.group(1)))
        # postfix index
        while self.i<len(s) and s[self.i]=='[':
            j=s.index(']',self.i); inner=s[self.i+1:j]; self.i=j+1
            m=re.match(r'_(\d+)$',inner)
            if m: pl=('index',pl,('local',int(m.group(1))))
            else: pl=('constindex',pl,inner)
        return pl

    def operand(self):
        self.ws(); s=self.s
        if self.peek('no_retag '): self.eat('no_retag ')
        if self.peek('copy '): self.eat('copy '); return ('copy',self.place())
        if self.peek('move '): self.eat('move '); return ('move',self.place())
        if self.peek('const '):
            self.eat('const '); return self.const()
        # bare fn item / path
        j=skip_balanced(s,self.i,',)]}'); t=s[self.i:j].strip(); self.i=j
        return ('const',('item',t))

    def const(self):
        self.ws(); s=self.s
        if s[self.i]=='"':
            v,self.i=parse_string_lit(s,self.i); return ('const',('str',v))
        if s.startswith('b"',self.i):
            v,self.i=parse_bytes_lit(s,self.i); return ('const',('bytes',v))
        if s[self.i]=="'":
            # char literal
            m=re.match(r"'((?:\\.[^']*)|[^'])'",s[self.i:])
            body=m.group(1); self.i+=m.end()
            v,_=parse_string_lit('"'+body.replace('"','\\"')+'"',0) if body!='"' else ('"',0)
            return ('const',('char',v))
        m=re.match(r'(-?\d+)_([iu](?:8|16|32|64|128|size))',s[self.i:])
        if m: self.i+=m.end(); return ('const',('int',int(m.group(1)),m.group(2)))
        m=re.match(r'(true|false)\b',s[self.i:])
        if m: self.i+=m.end(); return ('const',('bool',m.group(1)=='true'))
        if s.startswith('()',self.i): self.i+=2; return ('const',('unit',))
        j=skip_balanced(s,self.i,',)]};'); t=s[self.i:j].strip(); self.i=j
        return ('const',('item',t))

BINOPS={'Eq','Ne','Lt','Le','Gt','Ge','Add','Sub','Mul','Div','Rem','BitAnd','BitOr','BitXor','Shl','Shr','AddWithOverflow','SubWithOverflow','MulWithOverflow','Offset','Cmp','AddUnchecked','SubUnchecked','MulUnchecked','ShlUnchecked','ShrUnchecked'}
UNOPS={'Not','Neg','PtrMetadata'}

def split_top(s, sep=','):
    out=[]; depth=0; cur=[]; i=0; n=len(s); instr=False
    while i<n:
        c=s[i]
        if instr:
            cur.append(c)
            if c=='\\': cur.append(s[i+1]); i+=1
            elif c=='"': instr=False
        elif c=='"': instr=True; cur.append(c)
        elif c=="'" and re.match(r"'(\\.[^']*|[^'])'",s[i:]):
            m=re.match(r"'(\\.[^']*|[^'])'",s[i:]); cur.append(m.group()); i+=m.end()-1
        elif c in '([{': depth+=1; cur.append(c)
        elif c in ')]}': depth-=1; cur.append(c)
        elif c=='<' and (i+1<n and s[i+1]!=' ' and s[i+1]!='='): depth+=1; cur.append(c)
        elif c=='>' and depth>0 and not (i>0 and s[i-1] in '-='): depth-=1; cur.append(c)
        elif c==sep and depth==0: out.append(''.join(cur).strip()); cur=[]
        else: cur.append(c)
        i+=1
    t=''.join(cur).strip()
    if t: out.append(t)
    return out


def split_call(call):
    """split 'callee(args)' where callee may contain parens in generics; string-aware"""
    i=0; n=len(call); depth=0; groups=[]
    while i<n:
        c=call[i]
        if c=='"':
            _,i=parse_string_lit(call,i); continue
        if c=='b' and call.startswith('b"',i):
            _,i=parse_string_lit(call,i+1); continue
        if c=="'":
            mmm=re.match(r"'(\\.[^']*|[^'])'",call[i:])
            if mmm: i+=mmm.end(); continue
        if c=='(':
            if depth==0: start=i
            depth+=1
        elif c==')':
            depth-=1
            if depth==0: groups.append((start,i))
        i+=1
    st,en=groups[-1]
    assert en==n-1,(call,groups)
    return call[:st].strip(), call[st+1:en]

def parse_operand_str(t):
    p=P(t); o=p.operand()
    if not p.done(): raise ValueError('trailing in operand %r'%t)
    return o

def parse_rvalue(t):
    t=t.strip()
    if t.startswith('&raw '):
        m=re.match(r'&raw (const|mut) ',t); return ('ref',P(t[m.end():]).place())
    if t.startswith('&mut '): return ('ref',parse_place_str(t[5:]))
    if t.startswith('&fake shallow '): return ('ref',parse_place_str(t[14:]))
    if t.startswith('&'): return ('ref',parse_place_str(t[1:]))
    m=re.match(r'([A-Za-z]+)\((.*)\)$',t)
    if m and m.group(1) in BINOPS:
        a,b=split_top(m.group(2)); return ('binop',m.group(1),parse_operand_str(a),parse_operand_str(b))
    if m and m.group(1) in UNOPS:
        return ('unop',m.group(1),parse_operand_str(m.group(2)))
    if m and m.group(1)=='discriminant': return ('discriminant',parse_place_str(m.group(2)))
    if m and m.group(1)=='Len': return ('len',parse_place_str(m.group(2)))
    if m and m.group(1)=='CopyForDeref': return ('use',('copy',parse_place_str(m.group(2))))
    # cast:  OP as TYPE (Kind)
    m=re.match(r'(.*) as (.*) \(((?:IntToInt|IntToFloat|FloatToInt|FloatToFloat|PtrToPtr|FnPtrToPtr|Transmute|Subtype|PointerExposeProvenance|PointerWithExposedProvenance|PointerCoercion).*)\)$',t)
    if m and re.match(r'(copy|move|const) ',m.group(1)):
        try: return ('cast',parse_operand_str(m.group(1)),m.group(2),m.group(3))
        except ValueError: pass
    if re.match(r'(no_retag )?(copy|move|const) ',t):
        try: return ('use',parse_operand_str(t))
        except ValueError: pass
    if t.startswith('[') and t.endswith(']'):
        inner=t[1:-1]
        parts=split_top(inner,';')
        if len(parts)==2: return ('repeat',parse_operand_str(parts[0]),parts[1])
        return ('array',[parse_operand_str(x) for x in split_top(inner)])
    if t.startswith('(') and t.endswith(')'):
        inner=t[1:-1]
        return ('tuple',[parse_operand_str(x) for x in split_top(inner)])
    # closure / struct aggregate:  Name { f: op, ... }
    m=re.match(r'(.*?) \{ (.*) \}$',t) if not t.startswith('{closure') else re.match(r'(\{closure@[^}]*\}) \{ (.*) \}$',t)
    if m:
        fields=[]
        for f in split_top(m.group(2)):
            k,v=f.split(': ',1); fields.append((k.strip(),parse_operand_str(v)))
        return ('struct',m.group(1),fields)
    if t.startswith('{closure@') and t.endswith('}'): return ('struct',t,[])
    # variant / tuple-struct aggregate Path(args) or unit Path
    if t.endswith(')'):
        callee,args=split_call(t)
        return ('adt',callee,[parse_operand_str(x) for x in split_top(args)])
    return ('adt',t,[])

def parse_place_str(t):
    p=P(t); pl=p.place()
    if not p.done(): raise ValueError('trailing in place %r'%t)
    return pl

def parse_targets(t):
    # "[return: bb1, unwind continue]" or "[0: bb4, otherwise: bb16]" or "unwind continue"
    d={}
    t=t.strip()
    if t.startswith('['):
        for part in split_top(t[1:-1]):
            if ':' in part:
                k,v=part.split(':',1); k=k.strip(); v=v.strip()
                m=re.match(r'bb(\d+)',v)
                d[k]=int(m.group(1)) if m else v
            else:
                d[part]=None
    return d

def parse_terminator(line):
    t=line.rstrip(';').strip()
    if t=='return': return ('return',)
    if t=='unreachable': return ('unreachable',)
    if t=='resume' or t.startswith('resume'): return ('resume',)
    if t.startswith('terminate'): return ('abort',)
    m=re.match(r'goto -> bb(\d+)$',t)
    if m: return ('goto',int(m.group(1)))
    m=re.match(r'switchInt\((.*)\) -> (\[.*\])$',t)
    if m:
        tg=parse_targets(m.group(2)); other=tg.pop('otherwise',None)
        return ('switch',parse_operand_str(m.group(1)),{int(k):v for k,v in tg.items()},other)
    m=re.match(r'drop\((.*)\) -> (\[.*\])$',t)
    if m: return ('drop',parse_place_str(m.group(1)),parse_targets(m.group(2)).get('return'))
    m=re.match(r'assert\((.*)\) -> (\[.*\])$',t)
    if m:
        args=split_top(m.group(1)); cond=args[0]; neg=False
        if cond.startswith('!'): neg=True; cond=cond[1:]
        return ('assert',parse_operand_str(cond),not neg,args[1] if len(args)>1 else '',parse_targets(m.group(2)).get('success'))
    m=re.match(r'yield\(',t)
    if m: return ('yield',t)
    # call: [PLACE = ] CALLEE(ARGS) -> targets
    m=re.match(r'(.*?) -> (\[.*\]|unwind .*|bb\d+)$',t)
    if m:
        lhs_call=m.group(1); tg=parse_targets(m.group(2))
        dest=None; call=lhs_call
        # split 'PLACE = ' prefix
        mm=re.match(r'((?:\(.*?\)|_\d+)(?:\[[^\]]*\])*) = (.*)$',lhs_call)
        if mm:
            try:
                dest=parse_place_str(mm.group(1)); call=mm.group(2)
            except ValueError: dest=None; call=lhs_call
        callee,args=split_call(call)
        return ('call',dest,callee.strip(),[parse_operand_str(a) for a in split_top(args)],tg.get('return'))
    raise ValueError('terminator: '+t)

def parse_statement(line):
    t=line.rstrip(';').strip()
    for pre in ('StorageLive','StorageDead','FakeRead','PlaceMention','Retag','AscribeUserType','Coverage','ConstEvalCounter','nop','Deinit'):
        if t.startswith(pre): return ('nop',)
    m=re.match(r'discriminant\((.*)\) = (\d+)$',t)
    if m: return ('setdiscr',parse_place_str(m.group(1)),int(m.group(2)))
    # assignment
    p=P(t); pl=p.place(); p.eat('='); rv=parse_rvalue(p.rest())
    return ('assign',pl,rv)

def parse_mir(text):
    bodies={}; allocs={}
    lines=text.split('\n'); i=0; n=len(lines)
    while i<n:
        ln=lines[i]
        m=re.match(r'(fn|const|static(?: mut)?) (.*?)( = )?\{$',ln)
        if m and not ln.startswith(' '):
            kind=m.group(1); hdr=m.group(2)
            if kind=='fn':
                mm=re.match(r'(.*?)\((.*)\) -> (.*?)\s*$',hdr)
                name=mm.group(1); b=Body(kind,name,hdr)
                b.nargs=len(re.findall(r'(?:^|, )_\d+: ',mm.group(2))); b.ret_type=mm.group(3)
                b.arg_types=[x.split(': ',1)[1] for x in split_top(mm.group(2))] if mm.group(2) else []
            else:
                name=re.split(r': (?!\d)',hdr,maxsplit=1)[0]; b=Body(kind,name,hdr)
            i+=1; cur=None
            while not lines[i].startswith('}'):
                l=lines[i]; s=l.strip()
                mm=re.match(r'let (?:mut )?_(\d+): (.*);$',s)
                if mm: b.local_types[int(mm.group(1))]=mm.group(2)
                mm=re.match(r'bb(\d+)( \(cleanup\))?: \{$',s)
                if mm:
                    cur=int(mm.group(1)); stmts=[]; i+=1
                    while lines[i].strip()!='}':
                        stmts.append(lines[i].strip()); i+=1
                    b.blocks[cur]={'cleanup':bool(mm.group(2)),'raw':stmts}
                i+=1
            bodies[name]=b
        else:
            mm=re.match(r'const (.*?): (?!\d)(.*?) = const (.*);$',ln)
            if mm and not ln.startswith(' '):
                b=Body('const',mm.group(1),ln)
                b.blocks[0]={'cleanup':False,'raw':['_0 = const '+mm.group(3)+';','return;']}
                bodies[mm.group(1)]=b
            i+=1
    return bodies

def lower(b):
    for bb,blk in b.blocks.items():
        if blk['cleanup']: continue
        raw=blk['raw']
        blk['stmts']=[parse_statement(x) for x in raw[:-1]]
        blk['term']=parse_terminator(raw[-1])

if __name__=='__main__':
    bodies=parse_mir(open(sys.argv[1]).read())
    ok=0; bad=0
    for name,b in bodies.items():
        try: lower(b); ok+=1
        except Exception as e:
            bad+=1
            if bad<=25: print('FAIL',name[:80],'::',repr(e)[:300])
    print(len(bodies),'bodies',ok,'ok',bad,'bad')
