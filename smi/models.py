"""Environment models of SMI: std (Option/Result/Iterator/str/String/Vec/HashMap/fmt/io::Write), roxmltree,
Inflector + Url (real code, called natively), reqwest/yaserde/std::fs stubs. Each model is a few lines; everything
without a model raises Unsupported."""
import re, itertools
import z3
from interp import *
from interp import Machine, RcRef
from sym import SymVal, smap, lift, Infeasible
from xmltree import XDoc, XNode, parse_xml
import xml.parsers.expat
import native


def zand(xs):
    xs = list(xs)
    if any(x is False for x in xs):
        return False
    xs = [x for x in xs if x is not True]
    if not xs:
        return True
    if any(isinstance(x, SymVal) for x in xs):
        return smap(lambda *bs: all(bs), *xs)
    return z3.And(*xs) if len(xs) > 1 else xs[0]


def struct_eq(a, b):
    """structural equality; returns bool, SymVal(bool) or z3 Bool"""
    a = deref(a)
    b = deref(b)
    if isinstance(a, RString):
        a = a.s
    if isinstance(b, RString):
        b = b.s
    if isinstance(a, Adt) and isinstance(b, Adt):
        if a.variant != b.variant or len(a.fields) != len(b.fields):
            return False
        return zand(struct_eq(x, y) for x, y in zip(a.fields, b.fields))
    if isinstance(a, list) and isinstance(b, list):
        if len(a) != len(b):
            return False
        return zand(struct_eq(x, y) for x, y in zip(a, b))
    if isinstance(a, SymVal) or isinstance(b, SymVal):
        return smap(lambda p, q: p == q, a, b)
    if isinstance(a, z3.ExprRef) or isinstance(b, z3.ExprRef):
        return a == b
    return a == b


def clone_val(v):
    if isinstance(v, It):
        # cloning an iterator: both copies continue independently from the current position
        items = list(v.gen)
        v.gen = iter(items)
        return It(iter(list(items)))
    if isinstance(v, Adt):
        return Adt(v.name, v.variant, [clone_val(f) for f in v.fields])
    if isinstance(v, RString):
        return RString(v.s)
    if isinstance(v, list):
        return [clone_val(x) for x in v]
    if isinstance(v, PyMap):
        m = PyMap(v.kind)
        m.entries = [[clone_val(k), clone_val(x)] for k, x in v.entries]
        return m
    if isinstance(v, Url):
        return Url(v.s)
    return v   # Ref (Rc / &), str, int, XNode


HASH_MAPS_PER_PATH = 4


class SMI(Machine):
    # ------------------------------------------------------------------ fmt
    def display(self, v):
        v = deref(v)
        if isinstance(v, Adt) and v.name == 'Cow' and len(v.fields) == 1:
            return self.display(v.fields[0])
        if isinstance(v, RString):
            return v.s
        if isinstance(v, (str, SymVal)):
            return v
        if isinstance(v, Url):
            return v.s
        if isinstance(v, bool):
            return 'true' if v else 'false'
        if isinstance(v, int):
            return str(v)
        if isinstance(v, Opaque):
            return '<%s>' % v.kind
        if isinstance(v, Adt):
            b = self.impls.get((v.name, 'fmt', 'Display'))
            if b is not None:
                f = Adt('Formatter', 0, [Sink()])
                self.run(b, [Ref([v], 0), Ref([f], 0)])
                return self.rope_join(f.fields[0].rope)
        raise Unsupported('display of %r' % (v,))

    def debug(self, v):
        v = deref(v)
        if isinstance(v, XNode):
            return 'Element { tag_name: %s }' % v.d.get('tag') if isinstance(v.d.get('tag'), str) else 'Element { .. }'
        if isinstance(v, RString):
            v = v.s
        if isinstance(v, (str, SymVal)):
            return self.smap(lambda s_: native.call('debug', s_), v)     # Rust's own <str as Debug>::fmt, run natively
        if isinstance(v, Url):
            raise Unsupported('Debug of a Url')
        if isinstance(v, Opaque):
            return '<%s>' % v.kind
        raise Unsupported('debug of %r' % (v,))

    def rope_join(self, parts):
        parts = list(parts)
        if all(isinstance(p, str) for p in parts):
            return ''.join(parts)
        return self.smap(lambda *xs: ''.join(xs), *parts)

    def render(self, fa):
        return self.rope_join(self.render_pieces(fa))

    def render_pieces(self, fa):
        """decode core::fmt::Arguments (template byte-code as printed in MIR) into a list of str / SymVal pieces"""
        t = fa.template
        i = 0
        out = []
        ai = 0
        while True:
            n = t[i]
            i += 1
            if n == 0:
                break
            if n < 0x80:
                out.append(t[i:i + n].decode())
                i += n
            elif n == 0x80:
                ln = t[i] | (t[i + 1] << 8)
                i += 2
                out.append(t[i:i + ln].decode())
                i += ln
            elif n == 0xC0:
                a = fa.args[ai]
                ai += 1
                out.append(self.display(a.ref) if a.kind == 'new_display' else self.debug(a.ref))
            else:
                raise Unsupported('fmt placeholder with options %x' % n)
        return out

    def sink_write(self, w, text):
        sink = w.fields[0] if isinstance(w, Adt) and w.name == 'Formatter' else w
        if not isinstance(sink, Sink):
            if isinstance(sink, RString):
                sink.s = self.rope_join([sink.s] + (text if isinstance(text, list) else [text]))
                return OK(())
            if isinstance(sink, list):          # Vec<u8> as io::Write: keeps the text pieces
                sink.extend(text if isinstance(text, list) else [text])
                return OK(())
            raise Unsupported('write_fmt into %r' % (sink,))
        if sink.fail_at is not None:
            if self.branch(sink.fail_at == sink.n):
                self.events.append(('sink_fail', sink.n))
                k = sink.n
                # failure mode: persistent (this and every later call fails: the index does not advance) or one-shot (only call k
                # fails; the sink accepts later calls again, so an ignored error ends in Ok). Symbolic when the sink carries a
                # selector.
                once = getattr(sink, 'once', None)
                if once is not None and self.branch(once):
                    self.events.append(('sink_mode', 'one-shot'))
                    sink.n += 1
                return ERR(Opaque('io::Error', 'injected at write #%d' % k))
        sink.n += 1
        if isinstance(text, list):
            sink.rope.extend(text)
        else:
            sink.rope.append(text)
        return OK(())

    def bufw_inner_write(self, bw, pieces):
        if not pieces:
            return OK(())
        inner = deref(bw.inner)
        if isinstance(inner, Sink):
            return self.sink_write(inner, list(pieces))
        if isinstance(inner, BufW):
            inner.pending.extend(pieces)
            return OK(())
        raise Unsupported('BufWriter over %r' % (inner,))

    # ------------------------------------------------------------------ maps
    def map_find(self, m, key):
        """index of the entry whose key equals key (forks on symbolic comparisons), or None"""
        k = as_str(key)
        for i, e in enumerate(m.entries):
            if self.truth(struct_eq(e[0], k)):
                return i
        return None

    def map_insert(self, m, k, v):
        i = self.map_find(m, k)
        m.order = None
        if i is not None:
            old = m.entries[i][1]
            m.entries[i][1] = v
            return SOME(old)
        m.entries.append([k, v])
        return NONE()

    def map_order(self, m):
        n = len(m.entries)
        if m.kind == 'btree':
            keys = [self.cstr(e[0]) for e in m.entries]
            return [i for _, i in sorted(zip(keys, range(n)))]
        if n <= 1 or not self.hash_order_symbolic:
            return list(range(n))
        if m.order is not None and len(m.order) == n:
            return m.order
        # bound: the first HASH_MAPS_PER_PATH maps (with two or three entries) iterated on a path get a symbolic order,
        # later ones iterate in insertion order
        self.hash_maps_seen = getattr(self, 'hash_maps_seen', 0) + 1
        if self.hash_maps_seen > HASH_MAPS_PER_PATH or n > 3:
            return list(range(n))
        perms = list(itertools.permutations(range(n)))
        sel = z3.Int('hashorder_%d_%d' % (m.id % 1000, n))
        self.pc.append(z3.And(sel >= 0, sel < len(perms)))
        chosen = perms[-1]
        for pi, p in enumerate(perms[:-1]):
            if self.branch(sel == pi):
                chosen = p
                break
        else:
            self.pc.append(sel == len(perms) - 1)
        m.order = list(chosen)
        self.events.append(('hash_order', m.id, tuple(chosen)))
        return m.order

    # ------------------------------------------------------------------ error conversion for `?`
    def convert_error(self, c0, e):
        m = re.search(r'<Result<.*, ([\w:]+)> as FromResidual<Result<Infallible, ([\w:]+)>>>', strip_generics(c0))
        if not m:
            mm = re.match(r'<Result<(.*)> as FromResidual<Result<Infallible, (.*)>>>::from_residual', c0)
            if not mm:
                raise Unsupported('from_residual ' + c0)
            dst = M.split_top(mm.group(1))[-1]
            src = mm.group(2)
        else:
            dst, src = m.group(1), m.group(2)
        d = dst.split('::')[-1]
        s = src.split('::')[-1]
        if d == s:
            return e
        # From<src> for dst among the interpreted impls
        for (t, meth, tr), b in self.impl_list:
            if t == d and meth == 'from' and tr == 'From' and b.arg_types and s in b.arg_types[0]:
                return self.run(b, [e])
        raise Unsupported('no From<%s> for %s' % (src, dst))

    # ------------------------------------------------------------------ the model table
    def model(self, c0, args):
        c = strip_generics(c0).replace("'_", "").replace("'n", "")
        c = re.sub(r'^(?:std|alloc)::(?:rc|sync|boxed)::(Rc|Arc|Box)::', r'\1::', c)
        c = re.sub(r'^(?:std|core)::ops::(Range\w*)::', r'\1::', c)
        meth = c.split('::')[-1]
        a0 = args[0] if args else None
        try:
            d0 = deref(a0) if args else None
        except KeyError:
            # a reference to a zero-sized local that MIR never assigns (a closure that captures nothing)
            mz = re.match(r'<(\{closure@[^}]*\}) as Fn(Mut|Once)?<', c0)
            if not mz:
                raise Unsupported('reference to an unassigned local in ' + c0[:120])
            a0 = Adt(mz.group(1), 0, [])
            args = [a0] + list(args[1:])
            d0 = a0

        # --- a tuple-variant constructor called as a function: Option::<Url>::Some(x)
        segs_ = strip_generics(c0).split('::')
        if len(segs_) >= 2 and segs_[-2] in ENUMS and segs_[-1] in ENUMS[segs_[-2]] and not c0.startswith('<'):
            return Adt(segs_[-2], ENUMS[segs_[-2]].index(segs_[-1]), list(args))
        # --- calling a closure / fn item through the Fn traits: <F as Fn<(A, B)>>::call(f, (a, b))
        if meth in ('call', 'call_mut', 'call_once') and re.search(r' as Fn(Mut|Once)?<', c0) and len(args) == 2:
            tup = deref(args[1])
            return self.call_closure(args[0], list(tup) if isinstance(tup, list) else ([] if tup == () else [tup]))
        # --- fmt
        if 'fmt::rt::Argument' in c and meth in ('new_display', 'new_debug'):
            return FmtArg(meth, args[0])
        if c.startswith('Arguments') and meth == 'new':
            return FmtArgs(args[0], deref(args[1]))
        if c.startswith('Arguments') and meth == 'from_str':
            s = args[0].encode()
            return FmtArgs((bytes([len(s)]) if len(s) < 128 else b'\x80' + len(s).to_bytes(2, 'little')) + s + b'\0', [])
        if c == 'format' or c.endswith('fmt::format'):
            return RString(self.render(args[0]))
        if c == 'must_use':
            return args[0]
        # --- std::io::BufWriter (see interp.BufW)
        if re.match(r'(std::io::)?BufWriter(::<.*>)?::(new|with_capacity)$', c0) and args:
            return BufW(args[-1])
        if c == 'BufWriter::drop' and isinstance(d0, BufW):
            pend, d0.pending = d0.pending, []
            self.bufw_inner_write(d0, pend)         # the result is ignored: an error at this point is lost
            return ()
        if isinstance(d0, BufW):
            if meth == 'write_fmt':
                d0.pending.extend(self.render_pieces(args[1]))
                return OK(())
            if meth in ('write_all', 'write', 'write_str'):
                buf = as_str(args[1])
                if isinstance(buf, bytes):
                    buf = buf.decode()
                if isinstance(buf, list):
                    buf = bytes(buf).decode()
                d0.pending.append(buf)
                return OK(()) if meth != 'write' else OK(self.smap(lambda t: len(t.encode()), buf))
            if meth == 'flush':
                pend, d0.pending = d0.pending, []
                r = self.bufw_inner_write(d0, pend)
                return r if r.variant == 1 else OK(())
            if meth == 'into_inner':
                pend, d0.pending = d0.pending, []
                r = self.bufw_inner_write(d0, pend)
                return OK(d0.inner) if r.variant == 0 else ERR(Opaque('IntoInnerError', r.fields[0]))
            if meth in ('get_ref', 'get_mut'):
                return d0.inner
            if meth == 'buffer':
                return ''
        if meth in ('write_fmt', 'write_all') and isinstance(d0, Adt) and d0.name != 'Formatter' and self.find_impl(d0.name, 'write', 'Write') is not None \
                and self.find_impl(d0.name, meth, 'Write') is None:
            # a writer defined in the crate that only implements `write`: io::Write's provided write_fmt / write_all
            # (write until everything is accepted; Ok(0) is WriteZero; Interrupted is retried)
            wimpl = self.find_impl(d0.name, 'write', 'Write')
            pieces = self.render_pieces(args[1]) if meth == 'write_fmt' else [as_str(args[1])]
            for piece in pieces:
                buf = piece
                guard = 0
                while True:
                    self.subst.append({})       # the impl's own type parameters are not the caller's
                    try:
                        r = self.run(wimpl, [a0, buf])
                    finally:
                        self.subst.pop()
                    if r.variant == 1:
                        e = deref(r.fields[0])
                        if isinstance(e, Opaque) and isinstance(e.data, dict) and e.data.get('kind') == 'Interrupted':
                            continue
                        return r
                    n = self.concretize(r.fields[0]) if isinstance(r.fields[0], SymVal) else r.fields[0]
                    total = self.concretize(self.smap(lambda t: len(t.encode()), buf)) if isinstance(buf, SymVal) else len(buf.encode())
                    if total == 0 or n >= total:
                        break
                    if n == 0:
                        return ERR(Opaque('io::Error', {'kind': 'WriteZero'}))
                    buf = self.cstr(buf).encode()[n:].decode(errors='replace')
                    guard += 1
                    if guard > 200000:
                        raise Divergence('write_all does not make progress')
            return OK(())
        if meth == 'write_fmt':
            return self.sink_write(d0, self.render_pieces(args[1]))
        if meth == 'write_str' and isinstance(d0, Adt) and d0.name == 'Formatter':
            return self.sink_write(d0, args[1])
        if meth in ('write_all', 'write') and isinstance(d0, Sink):
            buf = args[1]
            buf = deref(buf)
            if isinstance(buf, RString):
                buf = buf.s
            if isinstance(buf, bytes):
                buf = buf.decode()
            if isinstance(buf, list):
                buf = bytes(buf).decode() if all(isinstance(b, int) for b in buf) else buf
            r = self.sink_write(d0, buf if isinstance(buf, (str, SymVal)) else self.cstr(buf))
            if meth == 'write_all' or r.variant == 1:
                return r
            # io::Write::write may accept only part of the buffer: in short-write mode the sink keeps one byte
            n = self.smap(lambda t: len(t.encode()), buf)
            if getattr(d0, 'short', False):
                last = d0.rope.pop()
                t = self.cstr(last)
                if len(t) > 1:
                    d0.rope.append(t[:1])
                    self.events.append(('short_write', len(t)))
                    return OK(1)
                d0.rope.append(t)
            return OK(n)
        if meth == 'flush' and isinstance(d0, Sink):
            return OK(())
        if meth == 'as_bytes':
            return as_str(a0)
        if meth == 'kind' and isinstance(d0, Opaque) and d0.kind == 'io::Error':
            kinds = [k for k in ('Other', 'BrokenPipe', 'WriteZero', 'Interrupted', 'PermissionDenied', 'StorageFull', 'TimedOut', 'UnexpectedEof') if k in ENUMS.get('ErrorKind', [])]
            if not kinds:
                raise Unsupported('io::ErrorKind variants unknown')
            if not isinstance(d0.data, dict):
                sel = z3.Int('io_error_kind_%d' % len([e for e in self.events if e[0] == 'err_kind']))
                self.pc.append(z3.And(sel >= 0, sel < len(kinds)))
                chosen = kinds[-1]
                for i, k in enumerate(kinds[:-1]):
                    if self.branch(sel == i):
                        chosen = k
                        break
                d0.data = {'kind': chosen}
                self.events.append(('err_kind', chosen))
            return Adt('ErrorKind', ENUMS['ErrorKind'].index(d0.data['kind']), [])
        if 'as IntoFuture>::into_future' in c:
            return a0
        if c.startswith('Pin::') and meth in ('new_unchecked', 'new'):
            return [a0]
        mfut = re.match(r'<\{async fn body of ([\w:]+)(?:<.*>)?\(\)\} as Future>::poll$', c0)
        if mfut:
            fname = mfut.group(1).split('::')[-1]
            cands = [b for n, b in self.b.items() if b.kind == 'fn' and (n == fname + '::{closure#0}' or n.endswith('::' + fname + '::{closure#0}'))]
            if len(cands) == 1:
                return self.run(cands[0], args)
        mu8 = re.match(r'(?:core::num::<impl u8>|u8)::(is_ascii\w*|to_ascii_\w+|eq_ignore_ascii_case)$', c)
        if mu8 and isinstance(d0, int) and not isinstance(d0, bool):
            ch = chr(d0) if d0 < 128 else '\x80'
            f = mu8.group(1)
            tbl = {'is_ascii': d0 < 128, 'is_ascii_digit': '0' <= ch <= '9', 'is_ascii_alphabetic': ch.isascii() and ch.isalpha(), 'is_ascii_alphanumeric': ch.isascii() and ch.isalnum(),
                   'is_ascii_uppercase': 'A' <= ch <= 'Z', 'is_ascii_lowercase': 'a' <= ch <= 'z', 'is_ascii_whitespace': ch in ' \t\n\x0c\r',
                   'is_ascii_punctuation': ch.isascii() and not ch.isalnum() and not ch.isspace() and ch.isprintable(), 'is_ascii_hexdigit': ch in '0123456789abcdefABCDEF',
                   'is_ascii_control': d0 < 32 or d0 == 127, 'is_ascii_graphic': 33 <= d0 <= 126}
            if f in tbl:
                return bool(tbl[f])
            if f == 'to_ascii_uppercase':
                return ord(ch.upper()) if d0 < 128 else d0
            if f == 'to_ascii_lowercase':
                return ord(ch.lower()) if d0 < 128 else d0
        mch = re.match(r'(?:core::char::methods::<impl char>|char::methods::<impl char>|char)::(\w+)$', c)
        if mch and isinstance(d0, str) and len(d0) == 1:
            f = mch.group(1)
            std_ = lambda pred: (lambda ch: native.char_is(pred, ch))
            table = {'is_uppercase': std_('is_uppercase'), 'is_lowercase': std_('is_lowercase'), 'is_alphabetic': std_('is_alphabetic'), 'is_numeric': std_('is_numeric'),
                     'is_alphanumeric': std_('is_alphanumeric'), 'is_whitespace': std_('is_whitespace'), 'is_control': std_('is_control'), 'is_ascii_uppercase': lambda ch: 'A' <= ch <= 'Z',
                     'is_ascii_lowercase': lambda ch: 'a' <= ch <= 'z', 'is_ascii_digit': lambda ch: '0' <= ch <= '9',
                     'is_ascii_alphabetic': lambda ch: ch.isascii() and ch.isalpha(), 'is_ascii_alphanumeric': lambda ch: ch.isascii() and ch.isalnum(),
                     'is_ascii': str.isascii, 'is_ascii_punctuation': lambda ch: ch.isascii() and not ch.isalnum() and not ch.isspace() and ch.isprintable(),
                     'is_ascii_whitespace': lambda ch: ch in ' \t\n\x0c\r'}
            if f in table:
                return bool(table[f](d0))
            if f in ('to_ascii_uppercase', 'to_ascii_lowercase'):
                return d0.upper() if f.endswith('uppercase') and d0.isascii() else d0.lower() if d0.isascii() else d0
            if f in ('to_uppercase', 'to_lowercase'):
                return It(iter(list(native.call(f, d0))))
            if f == 'is_digit':
                return d0 in '0123456789abcdefghijklmnopqrstuvwxyz'[:args[1]] or d0.lower() in '0123456789abcdefghijklmnopqrstuvwxyz'[:args[1]]
        mord = re.match(r'<([iu](?:8|16|32|64|128|size)|char) as Ord>::(min|max|clamp|cmp)$', c)
        if mord and all(isinstance(deref(a), (int, str)) for a in args):
            vals = [deref(a) for a in args]
            if mord.group(2) == 'min':
                return min(vals[0], vals[1])
            if mord.group(2) == 'max':
                return max(vals[0], vals[1])
            if mord.group(2) == 'clamp':
                return max(vals[1], min(vals[0], vals[2]))
            return Adt('Ordering3', 0, [(vals[0] > vals[1]) - (vals[0] < vals[1])])
        if c in ('std::cmp::min', 'std::cmp::max', 'core::cmp::min', 'core::cmp::max') and all(isinstance(deref(a), int) for a in args):
            return (min if meth == 'min' else max)(deref(args[0]), deref(args[1]))
        if isinstance(d0, Url):
            from urllib.parse import urlsplit, urlunsplit
            parts = urlsplit(d0.s)
            if meth in ('set_fragment', 'set_query'):
                v = deref(args[1])
                val = None if (isinstance(v, Adt) and v.variant == 0) else self.cstr(v.fields[0] if isinstance(v, Adt) else v)
                if meth == 'set_fragment':
                    parts = parts._replace(fragment=val or '')
                    d0.s = urlunsplit(parts) + ('#' if val == '' else '')
                else:
                    parts = parts._replace(query=val or '')
                    d0.s = urlunsplit(parts)
                    if val == '':
                        d0.s = d0.s.replace('#', '?#', 1) if '#' in d0.s else d0.s + '?'
                return ()
            if meth == 'query':
                return SOME(parts.query) if '?' in d0.s.split('#')[0] else NONE()
            if meth == 'fragment':
                return SOME(parts.fragment) if '#' in d0.s else NONE()
            if meth == 'path':
                return parts.path
            if meth == 'scheme':
                return parts.scheme
            if meth == 'host_str':
                return SOME(parts.hostname) if parts.hostname else NONE()
            if meth == 'port':
                return SOME(parts.port) if parts.port else NONE()
            if meth in ('as_str', 'as_ref', 'to_string'):
                return d0.s if meth != 'to_string' else RString(d0.s)
            if meth == 'join':
                r = native.call('url', __import__('urllib.parse').parse.urljoin(d0.s, self.cstr(args[1])))
                return OK(Url(r)) if r is not None else ERR(Opaque('url::ParseError'))
        if re.search(r'\bCow(::)?<', c0) and meth in ('into', 'from', 'deref', 'into_owned', 'as_ref', 'borrow', 'to_mut', 'clone', 'to_string', 'fmt', 'is_borrowed', 'is_owned'):
            if isinstance(d0, Adt) and d0.name == 'Cow':
                # an explicitly built Cow::Borrowed / Cow::Owned
                inner = d0.fields[0]
                if meth == 'into_owned':
                    return RString(as_str(inner))
                if meth in ('deref', 'as_ref', 'borrow'):
                    return as_str(inner)
                if meth == 'to_string':
                    return RString(as_str(inner))
                if meth == 'clone':
                    return clone_val(d0)
                raise Unsupported('Cow enum method ' + c0)
            if meth == 'into_owned':
                return RString(as_str(a0))
            return a0 if meth != 'clone' else clone_val(d0)
        if c in ('std::iter::repeat', 'core::iter::repeat') or c in ('std::iter::repeat_n', 'core::iter::repeat_n'):
            if meth == 'repeat_n':
                return It(iter([clone_val(a0) for _ in range(args[1])]))
            raise Unsupported('unbounded iter::repeat')
        if c in ('std::iter::successors', 'core::iter::successors'):
            def succ(first, f):
                cur = first
                guard = 0
                while isinstance(cur, Adt) and cur.variant == 1:
                    yield cur.fields[0]
                    cur = self.call_closure(f, [Ref(cur.fields, 0)])
                    guard += 1
                    if guard > 100000:
                        raise Divergence('iter::successors does not end')
            return It(succ(deref(a0), args[1]))
        if c in ('std::iter::from_fn', 'core::iter::from_fn'):
            def ff(f):
                guard = 0
                while True:
                    r = deref(self.call_closure(f, []))
                    if r.variant == 0:
                        return
                    yield r.fields[0]
                    guard += 1
                    if guard > 100000:
                        raise Divergence('iter::from_fn does not end')
            return It(ff(a0))
        if c in ('log::max_level', 'max_level'):
            return Adt('LevelFilter', 0, [])       # no logger installed: logging is off
        if c.startswith('log::__private_api::'):
            return ()
        if meth in ('le', 'lt', 'ge', 'gt') and isinstance(d0, Adt) and d0.name in ('Level', 'LevelFilter') and len(args) == 2:
            o = deref(args[1])

            def lv(x):
                """numeric level: LevelFilter::Off = 0, Error = 1 ... Trace = 5; Level::Error = 1 ... Trace = 5"""
                if isinstance(x, tuple) and len(x) == 2 and x[0] == 'item':
                    seg = strip_generics_path(x[1]).split('::')
                    x = self.item_const(x[1]) if seg[-1] not in ENUMS.get('LevelFilter', []) else Adt('LevelFilter', ENUMS['LevelFilter'].index(seg[-1]), [])
                if isinstance(x, Adt) and x.name == 'LevelFilter':
                    return x.variant
                if isinstance(x, Adt) and x.name == 'Level':
                    return x.variant + 1
                raise Unsupported('log level %r' % (x,))
            a_, b_ = lv(d0), lv(o)
            return {'le': a_ <= b_, 'lt': a_ < b_, 'ge': a_ >= b_, 'gt': a_ > b_}[meth]
        if isinstance(d0, bool) and meth in ('then', 'then_some') and ('bool' in c):
            if not d0:
                return NONE()
            return SOME(self.call_closure(args[1], [])) if meth == 'then' else SOME(args[1])
        if isinstance(d0, (SymVal, z3.BoolRef)) and meth in ('then', 'then_some') and ('bool' in c):
            if not self.truth(d0):
                return NONE()
            return SOME(self.call_closure(args[1], [])) if meth == 'then' else SOME(args[1])
        if re.match(r'(std|core)::mem::(take|replace|swap)$', c):
            if meth == 'take':
                old = a0.get()
                o = deref(old)
                new = RString('') if isinstance(o, RString) else [] if isinstance(o, list) else NONE() if isinstance(o, Adt) and o.name == 'Option' else False if isinstance(o, bool) else 0 if isinstance(o, int) else None
                if new is None:
                    if isinstance(o, PyMap):
                        new = PyMap(o.kind)
                    else:
                        raise Unsupported('mem::take of %r' % (o,))
                a0.set(new)
                return old
            if meth == 'replace':
                old = a0.get()
                a0.set(args[1])
                return old
            x, y = a0.get(), args[1].get()
            a0.set(y)
            args[1].set(x)
            return ()
        if c in ('std::iter::once', 'once', 'core::iter::once'):
            return It(iter([a0]))
        if c in ('std::iter::empty', 'empty', 'core::iter::empty'):
            return It(iter([]))
        if meth == 'to_string':
            return RString(self.display(a0))
        if meth in ('as_display', 'as_dyn_error'):
            return a0

        # --- Try / ? / conversions
        if meth == 'branch' and isinstance(d0, Adt):
            r = d0
            if r.name == 'Result':
                return Adt('ControlFlow', 0, [r.fields[0]]) if r.variant == 0 else Adt('ControlFlow', 1, [ERR(r.fields[0])])
            if r.name == 'Option':
                return Adt('ControlFlow', 0, [r.fields[0]]) if r.variant == 1 else Adt('ControlFlow', 1, [NONE()])
        if meth == 'from_residual' and isinstance(d0, Adt):
            if d0.name == 'Result':
                return ERR(self.convert_error(c0, d0.fields[0]))
            return NONE()
        if meth == 'from_residual' and c0.startswith('<Option<'):
            return NONE()
        mi = re.match(r'<(.+) as Into<(.+)>>::into$', c)
        if mi and not re.search(r'\b(Rc|Box|Arc|Cow)<', c0):
            src, dst = mi.group(1).split('::')[-1], mi.group(2).split('::')[-1]
            if src == dst:
                return a0
            for (t, meth_, tr), b in self.impl_list:
                if t == dst and meth_ == 'from' and tr == 'From' and b.arg_types and src in b.arg_types[0]:
                    return self.run(b, [a0])
            if dst == 'String' and isinstance(as_str(a0), (str, SymVal)):
                return RString(as_str(a0))
            if dst in ('PathBuf', 'OsString') and isinstance(as_str(a0), str):
                return as_str(a0)
            raise Unsupported('no From<%s> for %s' % (mi.group(1), mi.group(2)))
        if meth in ('into', 'from') and re.search(r'\b(Rc|Box|Arc)<', c0):
            return RcRef([a0], 0) if re.search(r'\b(Rc|Arc)<', c0) else Ref([a0], 0)
        if c in ('Rc::new', 'Arc::new'):
            return RcRef([a0], 0)
        if c == 'Box::new':
            return Ref([a0], 0)
        if meth == 'ptr_eq' and re.match(r'(Rc|Arc)::', c) and len(args) == 2:
            def target(v):
                # &Rc<T> -> the Rc cell (identity of the allocation)
                while isinstance(v, Ref) and isinstance(v.get(), Ref):
                    v = v.get()
                return v
            x, y = self.to_rc(args[0]), self.to_rc(args[1])
            if not (isinstance(x, RcRef) and isinstance(y, RcRef)):
                raise Unsupported('Rc::ptr_eq on values that are not tracked Rc allocations')
            return x is y or (x.cont is y.cont and x.key == y.key)
        if c == 'Box::new_uninit':
            return Ref([None], 0)
        if meth == 'from' and re.match(r'<[iu](8|16|32|64|128|size) as From<[iu](8|16|32|64|128|size)>>::from', c):
            return a0
        if meth == 'deref':
            if isinstance(d0, RString):
                return d0.s
            if isinstance(a0, Ref) and isinstance(a0.get(), Ref):
                return a0.get()     # &Rc<T> -> &T
            return a0
        if meth == 'as_ref' and re.search(r'<(Rc|Arc|Box)<', c0) and isinstance(a0, Ref) and isinstance(a0.get(), Ref):
            return a0.get()         # &Rc<T> -> &T
        if meth == 'not' and isinstance(d0, bool):
            return not d0
        if meth == 'as_str' and isinstance(d0, RString):
            return d0.s
        if meth == 'as_str' and isinstance(d0, Url):
            return d0.s
        if meth == 'clone':
            return clone_val(self.to_rc(a0))
        if meth == 'clone_from':
            a0.set(clone_val(deref(args[1])))
            return ()
        # --- RefCell: the cell is a Ref to its contents; borrow guards are transparent (they deref to the contents)
        if re.match(r'(std::cell::|core::cell::)?RefCell(::<.*>)?::new$', c0):
            return Ref([a0], 0)
        if re.match(r'(std::cell::|core::cell::)?RefCell(::<.*>)?::(borrow|borrow_mut|replace|take|into_inner|get_mut)$', c0) and isinstance(d0, Ref) is False and isinstance(a0, Ref):
            cell = a0
            while isinstance(cell.get(), Ref):
                cell = cell.get()
            if meth in ('borrow', 'borrow_mut', 'get_mut'):
                return cell
            if meth == 'replace':
                old_v = cell.get()
                cell.set(args[1])
                return old_v
            if meth == 'into_inner':
                return cell.get()
            raise Unsupported('RefCell method ' + c0)
        if meth in ('deref', 'deref_mut') and re.search(r'<(std::cell::)?Ref(Mut)?<', c0) and isinstance(a0, Ref):
            return a0.get() if isinstance(a0.get(), Ref) else a0
        if meth == 'default' and re.search(r'<RefCell<', c0):
            inner = re.search(r'<RefCell<(.*)> as', c0).group(1)
            if re.match(r'(std::collections::)?HashMap<', inner):
                return Ref([PyMap('hash')], 0)
            if re.match(r'(std::collections::)?BTreeMap<', inner):
                return Ref([PyMap('btree')], 0)
            if re.match(r'(std::vec::)?Vec<', inner):
                return Ref([[]], 0)
            raise Unsupported('default ' + c0)
        if meth == 'default':
            t = c0
            if re.search(r'<Option<', t):
                return NONE()
            if re.search(r'<Vec<', t):
                return []
            if '<String as' in t:
                return RString('')
            if '<bool as' in t:
                return False
            if re.search(r'<(Arc|Rc)<', t):
                raise Unsupported('default ' + c0)
            b = None
            m = re.match(r'<([\w:]+) as', t)
            if m:
                b = self.find_impl(m.group(1), 'default', 'Default')
            if b is not None:
                return self.run(b, [])
            raise Unsupported('default ' + c0)
        if meth in ('eq', 'ne') and len(args) == 2:
            r = struct_eq(a0, args[1])
            if meth == 'ne':
                r = (not r) if isinstance(r, bool) else self.smap(lambda x: not x, r) if isinstance(r, SymVal) else z3.Not(r)
            return r

        # --- Option / Result combinators
        if isinstance(d0, Adt) and d0.name == 'Option':
            some = d0.variant == 1
            v = d0.fields[0] if some else None
            if meth == 'map':
                return SOME(self.call_closure(args[1], [v])) if some else NONE()
            if meth == 'and_then':
                return self.call_closure(args[1], [v]) if some else NONE()
            if meth == 'ok_or_else':
                return OK(v) if some else ERR(self.call_closure(args[1], []))
            if meth == 'ok_or':
                return OK(v) if some else ERR(args[1])
            if meth == 'map_or':
                return self.call_closure(args[2], [v]) if some else args[1]
            if meth == 'map_or_else':
                return self.call_closure(args[2], [v]) if some else self.call_closure(args[1], [])
            if meth == 'unwrap_or_else':
                return v if some else self.call_closure(args[1], [])
            if meth == 'unwrap_or':
                return v if some else args[1]
            if meth == 'unwrap_or_default':
                if some:
                    return v
                mt = re.search(r'Option::<(.+)>::unwrap_or_default$', c0)
                t = mt.group(1) if mt else ''
                if t == 'bool':
                    return False
                if re.fullmatch(r'[iu](8|16|32|64|128|size)', t):
                    return 0
                if t in ('String', 'std::string::String'):
                    return RString('')
                if re.fullmatch(r'(std::vec::)?Vec<.*>', t):
                    return []
                if 'OsStr' in c0 or re.search(r'&(\'\w+ )?str\b', t):
                    return ''
                raise Unsupported('unwrap_or_default ' + c0)
            if meth == 'is_some_and':
                return self.call_closure(args[1], [v]) if some else False
            if meth == 'is_none_or':
                return self.call_closure(args[1], [v]) if some else True
            if meth == 'is_none':
                return not some
            if meth == 'is_some':
                return some
            if meth == 'filter':
                return d0 if some and self.truth(self.call_closure(args[1], [Ref(d0.fields, 0)])) else NONE()
            if meth == 'or_else':
                return d0 if some else self.call_closure(args[1], [])
            if meth == 'or':
                return d0 if some else args[1]
            if meth in ('cloned', 'copied'):
                return SOME(clone_val(self.to_rc(v))) if some else NONE()
            if meth == 'as_ref':
                return SOME(Ref(d0.fields, 0)) if some else NONE()
            if meth == 'as_mut':
                return SOME(Ref(d0.fields, 0)) if some else NONE()
            if meth == 'take':
                a0.set(NONE())
                return d0
            if meth == 'take_if':
                if some and self.truth(self.call_closure(args[1], [Ref(d0.fields, 0)])):
                    a0.set(NONE())
                    return d0
                return NONE()
            if meth == 'is_some_or' or meth == 'is_none_or':
                return self.call_closure(args[1], [v]) if some else True
            if meth == 'transpose':
                if not some:
                    return OK(NONE())
                r = deref(v)
                return OK(SOME(r.fields[0])) if r.variant == 0 else ERR(r.fields[0])
            if meth == 'zip':
                o = deref(args[1])
                return SOME([v, o.fields[0]]) if some and o.variant == 1 else NONE()
            if meth == 'xor':
                o = deref(args[1])
                return d0 if some and o.variant == 0 else o if (not some and o.variant == 1) else NONE()
            if meth == 'and':
                return args[1] if some else NONE()
            if meth in ('get_or_insert_with', 'get_or_insert'):
                if not some:
                    nv = self.call_closure(args[1], []) if meth == 'get_or_insert_with' else args[1]
                    d0.variant = 1
                    d0.fields[:] = [nv]
                return Ref(d0.fields, 0)
            if meth == 'insert':
                d0.variant = 1
                d0.fields[:] = [args[1]]
                return Ref(d0.fields, 0)
            if meth == 'replace':
                old = Adt('Option', d0.variant, list(d0.fields))
                d0.variant = 1
                d0.fields[:] = [args[1]]
                return old
            if meth == 'iter' or meth == 'into_iter':
                return It(iter([Ref(d0.fields, 0)] if some and isinstance(a0, Ref) else ([v] if some else [])))
            if meth == 'flatten':
                return deref(v) if some else NONE()
            if meth == 'inspect':
                if some:
                    self.call_closure(args[1], [Ref(d0.fields, 0)])
                return d0
            if meth == 'unzip':
                return [SOME(v[0]), SOME(v[1])] if some else [NONE(), NONE()]
            if meth == 'as_deref':
                if not some:
                    return NONE()
                x = deref(v)
                return SOME(x.s if isinstance(x, RString) else (v if isinstance(v, Ref) else Ref(d0.fields, 0)))
            if meth in ('unwrap', 'expect'):
                if not some:
                    raise Panic('%s on None%s' % (meth, (': ' + str(args[1])) if meth == 'expect' else ''))
                return v
        if isinstance(d0, Adt) and d0.name == 'Result':
            ok = d0.variant == 0
            v = d0.fields[0]
            if meth == 'map_err':
                return d0 if ok else ERR(self.call_closure(args[1], [v]))
            if meth == 'map':
                return OK(self.call_closure(args[1], [v])) if ok else d0
            if meth == 'and_then':
                return self.call_closure(args[1], [v]) if ok else d0
            if meth == 'ok':
                return SOME(v) if ok else NONE()
            if meth == 'err':
                return NONE() if ok else SOME(v)
            if meth == 'transpose':
                if not ok:
                    return SOME(ERR(v))
                o = deref(v)
                return SOME(OK(o.fields[0])) if o.variant == 1 else NONE()
            if meth == 'or_else':
                return d0 if ok else self.call_closure(args[1], [v])
            if meth == 'or':
                return d0 if ok else args[1]
            if meth == 'unwrap_or':
                return v if ok else args[1]
            if meth == 'map_or':
                return self.call_closure(args[2], [v]) if ok else args[1]
            if meth == 'map_or_else':
                return self.call_closure(args[2], [v]) if ok else self.call_closure(args[1], [v])
            if meth == 'as_ref' or meth == 'as_mut':
                return Adt('Result', d0.variant, [Ref(d0.fields, 0)])
            if meth == 'inspect_err':
                if not ok:
                    self.call_closure(args[1], [Ref(d0.fields, 0)])
                return d0
            if meth == 'iter' or meth == 'into_iter':
                return It(iter([v] if ok else []))
            if meth == 'is_ok_and':
                return self.call_closure(args[1], [v]) if ok else False
            if meth == 'is_err_and':
                return False if ok else self.call_closure(args[1], [v])
            if meth == 'is_ok':
                return ok
            if meth == 'is_err':
                return not ok
            if meth == 'unwrap_or_default' and ok:
                return v
            if meth == 'unwrap_or_else':
                return v if ok else self.call_closure(args[1], [v])
            if meth in ('unwrap', 'expect'):
                if not ok:
                    raise Panic('%s on Err%s' % (meth, (': ' + str(args[1])) if meth == 'expect' else ''))
                return v

        # --- roxmltree
        if isinstance(d0, XNode):
            r = self.model_xnode(d0, meth, args)
            if r is not NotImplemented:
                return r
        if isinstance(d0, tuple) and d0 and d0[0] == 'xname' and meth == 'name':
            return d0[1]
        if isinstance(d0, tuple) and d0 and d0[0] == 'xattr':
            if meth == 'name':
                return d0[1]
            if meth == 'value':
                return d0[2]
        if isinstance(d0, tuple) and d0 and d0[0] == 'xns':
            if meth == 'name':
                return opt(d0[1])
            if meth == 'uri':
                return d0[2]
        if isinstance(d0, XDoc):
            if meth == 'root':
                return XNode(d0, 0)
            if meth == 'root_element':
                for i in d0.nodes[0]['children']:
                    if d0.nodes[i]['kind'] == 'element':
                        return XNode(d0, i)
                raise Unsupported('document without root element')
        if meth == 'parse' and 'Document' in c0:
            txt = self.cstr(a0)
            self.events.append(('parse', txt if len(txt) < 80 else txt[:77] + '...'))
            if txt in self.parse_registry:
                doc = self.parse_registry[txt]
                if doc.malformed is not False and self.truth(doc.malformed):
                    return ERR(Opaque('roxmltree::Error', 'malformed'))
                return OK(doc)
            try:
                return OK(parse_xml(txt))
            except xml.parsers.expat.ExpatError as e:
                return ERR(Opaque('roxmltree::Error', str(e)))

        # --- iterators
        if meth == 'into_iter' or (meth == 'iter' and isinstance(d0, (list, PyMap))):
            if isinstance(d0, It):
                return d0
            if isinstance(d0, list):
                if isinstance(a0, Ref) or meth == 'iter':
                    return It(Ref(d0, i) for i in range(len(d0)))
                return It(iter(list(d0)))
            if isinstance(d0, PyMap) and getattr(d0, 'is_set', False):
                order = self.map_order(d0)
                return It((Ref(d0.entries[i], 0) if (isinstance(a0, Ref) or meth == 'iter') else d0.entries[i][0]) for i in order)
            if isinstance(d0, PyMap):
                order = self.map_order(d0)
                ents = [d0.entries[i] for i in order]
                if isinstance(a0, Ref) or meth == 'iter':
                    return It([Ref(e, 0), Ref(e, 1)] for e in ents)
                return It([e[0], e[1]] for e in ents)
        if meth in ('values', 'keys') and isinstance(d0, PyMap):
            order = self.map_order(d0)
            return It(Ref(d0.entries[i], 1 if meth == 'values' else 0) for i in order)
        if isinstance(d0, tuple) and len(d0) == 2 and d0[0] == 'item' and re.search(r'\biter::Empty(::)?<', d0[1]) and ' as Iterator>' in c0:
            d0 = It(iter([]))       # the zero-sized std::iter::Empty passed as a constant
        if isinstance(d0, It):
            r = self.model_iter(d0, meth, args, c0)
            if r is not NotImplemented:
                return r
        if meth == 'add' and re.match(r'<String as Add<&str>>::add', c0):
            return RString(self.rope_join([as_str(a0), as_str(args[1])]))
        if c == 'Url::parse':
            sv = self.cstr(a0)
            r = native.url_parse(sv)
            return OK(Url(r)) if r is not None else ERR(Opaque('url::ParseError'))

        # --- str
        if ('impl str' in c or c.startswith('str::') or c.startswith('<str') or c.startswith('core::str')) and args:
            r = self.model_str(as_str(a0), meth, args, c0)
            if r is not NotImplemented:
                return r
        if isinstance(d0, RString):
            r = self.model_string(a0, d0, meth, args, c0)
            if r is not NotImplemented:
                return r
        if meth == 'contains' and isinstance(d0, list):
            x = deref(args[1])
            for e in d0:
                if self.truth(struct_eq(e, x)):
                    return True
            return False
        if meth == 'join' and isinstance(d0, list):
            sep = as_str(args[1])
            parts = []
            for i, x in enumerate(d0):
                if i:
                    parts.append(sep)
                parts.append(as_str(x))
            return RString(self.rope_join(parts))

        # --- Vec / HashMap / Atomic
        if c in ('Vec::new', 'Vec::with_capacity', 'VecDeque::new', 'VecDeque::with_capacity'):
            return []
        if c in ('String::new', 'String::with_capacity'):
            return RString('')
        if re.match(r'<String as From<.*>>::from$', c) or c in ('String::from',):
            return RString(as_str(a0))
        if isinstance(d0, list):
            if meth == 'push':
                d0.append(args[1])
                return ()
            if meth == 'pop':
                return opt(d0.pop() if d0 else None)
            if meth == 'is_empty':
                return len(d0) == 0
            if meth == 'len':
                return len(d0)
            if meth == 'index' and isinstance(deref(args[1]), Adt) and deref(args[1]).name.startswith('Range'):
                r = deref(args[1])
                lo, hi = 0, len(d0)
                if r.name == 'Range':
                    lo, hi = r.fields
                elif r.name == 'RangeTo':
                    hi = r.fields[0]
                elif r.name == 'RangeFrom':
                    lo = r.fields[0]
                if lo > hi or hi > len(d0):
                    raise Panic('slice index out of range')
                return d0[lo:hi]
            if meth == 'index' and isinstance(args[1], int):
                if args[1] >= len(d0):
                    raise Panic('index out of bounds')
                return Ref(d0, args[1])
            if meth == 'first':
                return SOME(Ref(d0, 0)) if d0 else NONE()
            if meth == 'last':
                return SOME(Ref(d0, len(d0) - 1)) if d0 else NONE()
            if meth == 'get':
                i = args[1]
                return SOME(Ref(d0, i)) if isinstance(i, int) and 0 <= i < len(d0) else NONE()
            if meth == 'extend':
                o = self.as_iter(args[1])
                while True:
                    x = o.next()
                    if x is None:
                        break
                    d0.append(x)
                return ()
            if meth == 'insert':
                d0.insert(args[1], args[2])
                return ()
            if meth == 'clear':
                del d0[:]
                return ()
            if meth in ('reserve', 'reserve_exact', 'shrink_to_fit', 'shrink_to'):
                return ()
            if meth == 'capacity':
                return len(d0)
            if meth in ('extend_from_slice',):
                d0.extend(clone_val(x) for x in deref(args[1]))
                return ()
            if meth in ('iter', 'into_iter') and False:
                pass
            if meth in ('sort', 'sort_unstable'):
                keys = [self.cstr(x) if not isinstance(deref(x), int) else deref(x) for x in d0]
                d0[:] = [x for _, x in sorted(zip(keys, d0), key=lambda kv: kv[0])]
                return ()
            if meth in ('sort_by_key', 'sort_unstable_by_key', 'sort_by_cached_key'):
                ks = []
                for x in d0:
                    k = deref(self.call_closure(args[1], [Ref([x], 0)]))
                    ks.append(self.cstr(k) if not isinstance(k, int) else k)
                d0[:] = [x for _, x in sorted(zip(ks, d0), key=lambda kv: kv[0])]
                return ()
            if meth in ('sort_by', 'sort_unstable_by'):
                import functools as _ft

                def cmp(x, y):
                    r = deref(self.call_closure(args[1], [Ref([x], 0), Ref([y], 0)]))
                    return r.fields[0] if isinstance(r, Adt) and r.name == 'Ordering3' else {0: -1, 1: 0, 2: 1}[r.variant]
                d0[:] = sorted(d0, key=_ft.cmp_to_key(cmp))
                return ()
            if meth == 'dedup':
                out_ = []
                for x in d0:
                    if not out_ or not self.truth(struct_eq(out_[-1], x)):
                        out_.append(x)
                d0[:] = out_
                return ()
            if meth == 'retain':
                d0[:] = [x for x in list(d0) if self.truth(self.call_closure(args[1], [Ref([x], 0)]))]
                return ()
            if meth == 'reverse':
                d0.reverse()
                return ()
            if meth == 'truncate':
                del d0[args[1]:]
                return ()
            if meth == 'remove':
                if args[1] >= len(d0):
                    raise Panic('Vec::remove index out of bounds')
                return d0.pop(args[1])
            if meth == 'swap_remove':
                if args[1] >= len(d0):
                    raise Panic('Vec::swap_remove index out of bounds')
                x = d0[args[1]]
                d0[args[1]] = d0[-1]
                d0.pop()
                return x
            if meth == 'drain':
                items = list(d0)
                del d0[:]
                return It(iter(items))
            if meth == 'iter_mut':
                return It(Ref(d0, i) for i in range(len(d0)))
            if meth == 'concat':
                return RString(self.rope_join([as_str(x) for x in d0]))
            if meth == 'to_vec':
                return [clone_val(x) for x in d0]
            if meth == 'append':
                o = deref(args[1])
                d0.extend(o)
                del o[:]
                return ()
            if meth in ('windows', 'chunks', 'chunks_exact'):
                k = args[1]
                if k == 0:
                    raise Panic('window / chunk size must be non-zero')
                if meth == 'windows':
                    return It(iter([d0[i:i + k] for i in range(0, max(0, len(d0) - k + 1))]))
                out_ = [d0[i:i + k] for i in range(0, len(d0), k)]
                if meth == 'chunks_exact':
                    out_ = [c_ for c_ in out_ if len(c_) == k]
                return It(iter(out_))
            if meth == 'map' and re.search(r'\[.*; \d+\]', c0):
                return [self.call_closure(args[1], [x]) for x in d0]
            if meth in ('push_back',):
                d0.append(args[1])
                return ()
            if meth in ('push_front',):
                d0.insert(0, args[1])
                return ()
            if meth == 'pop_front':
                return opt(d0.pop(0) if d0 else None)
            if meth == 'pop_back':
                return opt(d0.pop() if d0 else None)
            if meth in ('front', 'back'):
                return SOME(Ref(d0, 0 if meth == 'front' else len(d0) - 1)) if d0 else NONE()
            if meth in ('starts_with', 'ends_with') and isinstance(deref(args[1]), list):
                o = deref(args[1])
                seg = d0[:len(o)] if meth == 'starts_with' else d0[len(d0) - len(o):]
                return len(o) <= len(d0) and all(self.truth(struct_eq(x, y)) for x, y in zip(seg, o))
            if meth == 'split_first':
                return SOME([Ref(d0, 0), d0[1:]]) if d0 else NONE()
            if meth == 'split_last':
                return SOME([Ref(d0, len(d0) - 1), d0[:-1]]) if d0 else NONE()
        if c in ('HashMap::new', 'HashMap::with_capacity'):
            return PyMap('hash')
        if c in ('HashSet::new', 'HashSet::with_capacity', 'BTreeSet::new'):
            m_ = PyMap('btree' if c.startswith('BTree') else 'hash')
            m_.is_set = True
            return m_
        if c in ('BTreeMap::new',):
            return PyMap('btree')
        if meth == 'from' and re.search(r'<(HashMap|BTreeMap)<', c0):
            m = PyMap('btree' if '<BTreeMap<' in c0 else 'hash')
            for kv in d0:
                self.map_insert(m, kv[0], kv[1])
            return m
        if isinstance(d0, PyMap) and getattr(d0, 'is_set', False):
            if meth == 'insert':
                return self.map_insert(d0, args[1], ()).variant == 0
            if meth == 'contains':
                return self.map_find(d0, args[1]) is not None
            if meth in ('iter', 'into_iter'):
                order = self.map_order(d0)
                return It((Ref(d0.entries[i], 0) if (isinstance(a0, Ref) or meth == 'iter') else d0.entries[i][0]) for i in order)
        if isinstance(d0, PyMap):
            if meth == 'insert':
                return self.map_insert(d0, args[1], args[2])
            if meth == 'get':
                i = self.map_find(d0, args[1])
                return SOME(Ref(d0.entries[i], 1)) if i is not None else NONE()
            if meth == 'get_key_value':
                i = self.map_find(d0, args[1])
                return SOME([Ref(d0.entries[i], 0), Ref(d0.entries[i], 1)]) if i is not None else NONE()
            if meth == 'contains_key':
                return self.map_find(d0, args[1]) is not None
            if meth in ('first_key_value', 'last_key_value', 'pop_first', 'pop_last') and d0.kind == 'btree':
                order = self.map_order(d0)
                if not order:
                    return NONE()
                i = order[0] if 'first' in meth else order[-1]
                if meth.startswith('pop'):
                    e = d0.entries.pop(i)
                    return SOME([e[0], e[1]])
                return SOME([Ref(d0.entries[i], 0), Ref(d0.entries[i], 1)])
            if meth == 'get_mut':
                i = self.map_find(d0, args[1])
                return SOME(Ref(d0.entries[i], 1)) if i is not None else NONE()
            if meth in ('into_values', 'into_keys'):
                order = self.map_order(d0)
                return It(d0.entries[i][1 if meth == 'into_values' else 0] for i in order)
            if meth == 'entry':
                # hash_map::Entry { Occupied, Vacant }; btree_map::Entry { Vacant, Occupied }
                present = self.map_find(d0, args[1]) is not None
                variant = (0 if present else 1) if d0.kind != 'btree' else (1 if present else 0)
                return Adt('Entry', variant, [('entry', d0, args[1])])
            if meth == 'len':
                return len(d0.entries)
            if meth == 'is_empty':
                return len(d0.entries) == 0
            if meth == 'extend':
                o = deref(args[1])
                ents = [o.entries[i] for i in self.map_order(o)] if isinstance(o, PyMap) else list(o)
                for e in ents:
                    self.map_insert(d0, e[0], e[1])
                return ()
            if meth == 'remove':
                i = self.map_find(d0, args[1])
                if i is None:
                    return NONE()
                d0.order = None
                return SOME(d0.entries.pop(i)[1])
        if isinstance(d0, Adt) and d0.name == 'Entry' and meth in ('or_insert', 'or_insert_with', 'or_default', 'key'):
            d0 = d0.fields[0]
        if isinstance(d0, tuple) and d0 and d0[0] == 'entry' and re.search(r'(Vacant|Occupied)Entry', c0):
            _, mp, key = d0
            i = self.map_find(mp, key)
            if meth == 'key':
                return key
            if 'VacantEntry' in c0 and meth in ('insert', 'insert_entry') and i is None:
                mp.entries.append([key, args[1]])
                mp.order = None
                return Ref(mp.entries[-1], 1)
            if 'OccupiedEntry' in c0 and i is not None:
                if meth in ('get', 'get_mut', 'into_mut'):
                    return Ref(mp.entries[i], 1)
                if meth == 'insert':
                    old_v = mp.entries[i][1]
                    mp.entries[i][1] = args[1]
                    return old_v
                if meth == 'remove':
                    mp.order = None
                    return mp.entries.pop(i)[1]
            raise Unsupported('map entry method ' + c0)
        if isinstance(d0, tuple) and d0 and d0[0] == 'entry' and meth == 'key':
            return d0[2]
        if isinstance(d0, tuple) and d0 and d0[0] == 'entry' and meth in ('or_insert', 'or_insert_with', 'or_default'):
            _, mp, key = d0
            i = self.map_find(mp, key)
            if i is None:
                if meth == 'or_insert':
                    v = args[1]
                elif meth == 'or_insert_with':
                    v = self.call_closure(args[1], [])
                else:
                    raise Unsupported('or_default value for ' + c0)
                mp.entries.append([key, v])
                mp.order = None
                i = len(mp.entries) - 1
            return Ref(mp.entries[i], 1)
        if c == 'Atomic::new' or c.startswith('AtomicBool::new'):
            return Atomic(a0)
        if isinstance(d0, Atomic):
            if meth == 'load':
                return d0.v
            if meth == 'store':
                d0.v = args[1]
                return ()
            if meth == 'swap':
                old = d0.v
                d0.v = args[1]
                return old
        if isinstance(d0, Adt) and d0.name in ('Range', 'RangeInclusive', 'RangeFrom') and all(isinstance(f, int) for f in d0.fields):
            lo = d0.fields[0]
            hi = d0.fields[1] + (1 if d0.name == 'RangeInclusive' else 0) if d0.name != 'RangeFrom' else None
            if hi is not None:
                if meth in ('into_iter', 'iter'):
                    return It(iter(range(lo, hi)))
                if meth == 'next':
                    if lo < hi:
                        d0.fields[0] = lo + 1
                        return SOME(lo)
                    return NONE()
                if meth == 'len':
                    return max(0, hi - lo)
                if meth == 'contains':
                    x = deref(args[1])
                    return lo <= x < hi
                if meth == 'is_empty':
                    return lo >= hi
                if meth in ('rev', 'map', 'filter', 'filter_map', 'for_each', 'fold', 'any', 'all', 'find', 'collect', 'zip', 'take', 'skip', 'step_by', 'enumerate', 'flat_map', 'sum', 'count', 'try_for_each', 'position', 'last', 'find_map'):
                    return self.model_iter(It(iter(range(lo, hi))), meth, [None] + list(args[1:]), c0)
        if c.startswith('RangeInclusive') and meth == 'new':
            return Adt('RangeInclusive', 0, [args[0], args[1]])
        if c.startswith('inflector::'):
            s0 = as_str(a0)
            return RString(self.smap(lambda s: native.inflect(meth, s), s0))
        if c.endswith('box_assume_init_into_vec_unsafe') or meth == 'into_vec':
            return d0 if isinstance(d0, list) else a0
        if meth in ('as_slice', 'as_mut_slice') and isinstance(d0, list):
            return a0
        if c.startswith('core::panicking::') or c.startswith('std::rt::begin_panic') or meth in ('panic_fmt', 'panic', 'unwrap_failed', 'expect_failed', 'assert_failed'):
            raise Panic('explicit panic: ' + c[:60])
        if meth == 'drop' and (c.startswith('std::mem::') or c.startswith('core::mem::') or c == 'drop'):
            return ()
        raise Unsupported('callee %s  (args %s)' % (c0, [type(deref(a)).__name__ for a in args]))

    # ------------------------------------------------------------------ roxmltree node
    def model_xnode(self, n, meth, args):
        dd = n.d
        if meth == 'is_element':
            return dd['kind'] == 'element'
        if meth == 'is_text':
            return dd['kind'] == 'text'
        if meth == 'tag_name':
            return ('xname', dd.get('tag', ''))
        if meth == 'has_attribute' or meth == 'attribute':
            want = args[1]
            want = self.cstr(want) if not isinstance(want, str) else want
            for k, v, pres in dd.get('attrs', []):
                if k == want:
                    if self.truth(pres):
                        return SOME(v) if meth == 'attribute' else True
                    break
            return NONE() if meth == 'attribute' else False
        if meth == 'children':
            return It(self.children_of(n))
        if meth == 'first_element_child':
            for ch in self.children_of(n):
                if ch.d['kind'] == 'element':
                    return SOME(ch)
            return NONE()
        if meth == 'has_children':
            return any(True for _ in self.children_of(n))
        if meth == 'parent':
            return opt(None if dd['parent'] is None else XNode(n.doc, dd['parent']))
        if meth == 'text':
            if dd['kind'] == 'element':
                for ch in self.children_of(n):
                    if ch.d['kind'] == 'text':
                        return SOME(ch.d['text'])
                    return NONE()
                return NONE()
            return opt(dd.get('text'))
        if meth == 'namespaces':
            return It(('xns', p, u) for p, u in dd.get('ns', []))
        if meth == 'descendants':
            def gen(node):
                yield node
                for ch in self.children_of(node):
                    yield from gen(ch)
            return It(gen(n))
        if meth == 'ancestors':
            def anc(node):
                cur = node
                while cur is not None:
                    yield cur
                    par = cur.d['parent']
                    cur = None if par is None else XNode(cur.doc, par)
            return It(anc(n))
        if meth in ('next_siblings', 'prev_siblings'):
            # roxmltree: both iterators start at the node itself
            par = dd['parent']
            if par is None:
                return It(iter([n]))
            sibs = list(self.children_of(XNode(n.doc, par)))
            i = [j for j, k in enumerate(sibs) if k.idx == n.idx][0]
            return It(iter(sibs[i:] if meth == 'next_siblings' else sibs[:i + 1][::-1]))
        if meth in ('next_sibling', 'prev_sibling', 'next_sibling_element', 'prev_sibling_element', 'first_child', 'last_child', 'first_element_child', 'last_element_child'):
            if meth in ('first_child', 'last_child', 'last_element_child'):
                kids = list(self.children_of(n))
                if 'element' in meth:
                    kids = [k for k in kids if k.d['kind'] == 'element']
                if not kids:
                    return NONE()
                return SOME(kids[0] if meth.startswith('first') else kids[-1])
            par = dd['parent']
            if par is None:
                return NONE()
            sibs = list(self.children_of(XNode(n.doc, par)))
            idxs = [i for i, k in enumerate(sibs) if k.idx == n.idx]
            if not idxs:
                return NONE()
            i = idxs[0]
            seq = sibs[i + 1:] if meth.startswith('next') else sibs[:i][::-1]
            if meth.endswith('element'):
                seq = [k for k in seq if k.d['kind'] == 'element']
            return SOME(seq[0]) if seq else NONE()
        if meth == 'has_tag_name':
            want = args[1]
            want = self.cstr(want) if not isinstance(want, str) else want
            return self.smap(lambda t: t == want, dd.get('tag', '')) if dd['kind'] == 'element' else False
        if meth == 'attributes':
            out_ = []
            for k, v, pres in dd.get('attrs', []):
                if self.truth(pres):
                    out_.append(('xattr', k, v))
            return It(iter(out_))
        if meth == 'is_root':
            return dd['kind'] == 'root'
        if meth == 'is_comment':
            return dd['kind'] == 'comment'
        if meth == 'document':
            return n.doc
        if meth == 'fmt':
            return NotImplemented
        return NotImplemented

    def children_of(self, n):
        dd = n.d
        kids = list(dd['children'])
        if 'order' in dd:
            sel = dd['order']
            perm = self.concretize(sel.sym())
            kids = [kids[i] for i in perm]
        for i in kids:
            pres = n.doc.nodes[i].get('present', True)
            if pres is True or self.truth(pres):
                yield XNode(n.doc, i)

    def to_rc(self, v):
        """follow references down to the value, but stop at an Rc/Arc allocation (cloning an Rc shares it)"""
        while isinstance(v, Ref) and not isinstance(v, RcRef):
            v = v.get()
        return v

    def as_iter(self, v, by_ref=False):
        """IntoIterator of a runtime value"""
        o = deref(v)
        if isinstance(o, tuple) and len(o) == 2 and o[0] == 'item' and re.search(r'\biter::Empty(::)?<', o[1]):
            return It(iter([]))         # the zero-sized std::iter::Empty passed as a constant
        if isinstance(o, It):
            return o
        if isinstance(o, list):
            return It((Ref(o, i) for i in range(len(o)))) if (by_ref or isinstance(v, Ref)) else It(iter(list(o)))
        if isinstance(o, PyMap):
            order = self.map_order(o)
            if getattr(o, 'is_set', False):
                return It((Ref(o.entries[i], 0) if (by_ref or isinstance(v, Ref)) else o.entries[i][0]) for i in order)
            return It(([Ref(o.entries[i], 0), Ref(o.entries[i], 1)] if (by_ref or isinstance(v, Ref)) else [o.entries[i][0], o.entries[i][1]]) for i in order)
        if isinstance(o, Adt) and o.name == 'Option':
            return It(iter([o.fields[0]] if o.variant == 1 else []))
        raise Unsupported('into_iter of %r' % (o,))

    # ------------------------------------------------------------------ iterator adaptors
    def model_iter(self, it, meth, args, c0):
        if meth == 'next':
            return opt(it.next())
        if meth == 'next_back' or meth == 'last':
            items = it.peeked + list(it.gen)
            it.peeked = []
            if not items:
                return NONE()
            last = items.pop()
            it.gen = iter(items)
            return SOME(last)
        if meth == 'find':
            while True:
                x = it.next()
                if x is None:
                    return NONE()
                if self.truth(self.call_closure(args[1], [Ref([x], 0)])):
                    return SOME(x)
        if meth == 'find_map':
            while True:
                x = it.next()
                if x is None:
                    return NONE()
                r = self.call_closure(args[1], [x])
                if r.variant == 1:
                    return r
        if meth == 'position':
            i = 0
            while True:
                x = it.next()
                if x is None:
                    return NONE()
                if self.truth(self.call_closure(args[1], [x])):
                    return SOME(i)
                i += 1
        if meth == 'any':
            while True:
                x = it.next()
                if x is None:
                    return False
                if self.truth(self.call_closure(args[1], [x])):
                    return True
        if meth == 'all':
            while True:
                x = it.next()
                if x is None:
                    return True
                if not self.truth(self.call_closure(args[1], [x])):
                    return False
        if meth == 'filter':
            f = args[1]

            def g():
                while True:
                    x = it.next()
                    if x is None:
                        return
                    if self.truth(self.call_closure(f, [Ref([x], 0)])):
                        yield x
            return It(g())
        if meth == 'map':
            f = args[1]

            def g():
                while True:
                    x = it.next()
                    if x is None:
                        return
                    yield self.call_closure(f, [x])
            return It(g())
        if meth == 'filter_map':
            f = args[1]

            def g():
                while True:
                    x = it.next()
                    if x is None:
                        return
                    r = self.call_closure(f, [x])
                    if r.variant == 1:
                        yield r.fields[0]
            return It(g())
        if meth == 'flat_map' or meth == 'flatten':
            f = args[1] if meth == 'flat_map' else None

            def g():
                while True:
                    x = it.next()
                    if x is None:
                        return
                    inner = self.call_closure(f, [x]) if f is not None else x
                    inner = deref(inner)
                    if isinstance(inner, Adt) and inner.name == 'Option':
                        if inner.variant == 1:
                            yield inner.fields[0]
                        continue
                    inner = self.as_iter(inner)
                    while True:
                        y = inner.next()
                        if y is None:
                            break
                        yield y
            return It(g())
        if meth == 'enumerate':
            def g():
                i = 0
                while True:
                    x = it.next()
                    if x is None:
                        return
                    yield [i, x]
                    i += 1
            return It(g())
        if meth == 'chain':
            o = self.as_iter(args[1])

            def g():
                while True:
                    x = it.next()
                    if x is None:
                        break
                    yield x
                while True:
                    x = o.next()
                    if x is None:
                        return
                    yield x
            return It(g())
        if meth in ('cloned', 'copied'):
            def g():
                while True:
                    x = it.next()
                    if x is None:
                        return
                    yield clone_val(self.to_rc(x))
            return It(g())
        if meth in ('take', 'skip'):
            k = args[1]
            if meth == 'take':
                def g():
                    for _ in range(k):
                        x = it.next()
                        if x is None:
                            return
                        yield x
            else:
                def g():
                    for _ in range(k):
                        if it.next() is None:
                            return
                    while True:
                        x = it.next()
                        if x is None:
                            return
                        yield x
            return It(g())
        if meth == 'rev':
            items = list(it.gen)
            return It(iter(items[::-1]))
        if meth == 'peekable' or meth == 'by_ref' or meth == 'fuse':
            return it
        if meth in ('peek', 'peek_mut'):
            x = it.peek()
            return NONE() if x is None else SOME(Ref(it.peeked, 0))
        if meth in ('next_if', 'next_if_eq'):
            x = it.peek()
            if x is None:
                return NONE()
            ok_ = self.truth(self.call_closure(args[1], [Ref(it.peeked, 0)])) if meth == 'next_if' else self.truth(struct_eq(x, args[1]))
            return SOME(it.next()) if ok_ else NONE()
        if meth == 'for_each':
            while True:
                x = it.next()
                if x is None:
                    return ()
                self.call_closure(args[1], [x])
        if meth == 'partition':
            yes, no = [], []
            while True:
                x = it.next()
                if x is None:
                    return [yes, no]
                (yes if self.truth(self.call_closure(args[1], [Ref([x], 0)])) else no).append(x)
        if meth in ('try_for_each', 'try_fold'):
            acc = args[1] if meth == 'try_fold' else ()
            f = args[2] if meth == 'try_fold' else args[1]
            kind = None
            while True:
                x = it.next()
                if x is None:
                    break
                r = self.call_closure(f, [acc, x] if meth == 'try_fold' else [x])
                r = deref(r)
                if not isinstance(r, Adt):
                    raise Unsupported('try_for_each result %r' % (r,))
                kind = r.name
                if r.name == 'Result':
                    if r.variant == 1:
                        return r
                    acc = r.fields[0]
                elif r.name == 'Option':
                    if r.variant == 0:
                        return r
                    acc = r.fields[0]
                elif r.name == 'ControlFlow':
                    if r.variant == 1:
                        return r
                    acc = r.fields[0]
            tail = c0.split(meth, 1)[1]
            if kind == 'Option' or (kind is None and 'Option<' in tail and 'Result<' not in tail):
                return SOME(acc)
            if kind == 'ControlFlow':
                return Adt('ControlFlow', 0, [acc])
            return OK(acc)
        if meth in ('take_while', 'skip_while'):
            f = args[1]
            if meth == 'take_while':
                def g():
                    while True:
                        x = it.next()
                        if x is None or not self.truth(self.call_closure(f, [Ref([x], 0)])):
                            return
                        yield x
            else:
                def g():
                    skipping = True
                    while True:
                        x = it.next()
                        if x is None:
                            return
                        if skipping and self.truth(self.call_closure(f, [Ref([x], 0)])):
                            continue
                        skipping = False
                        yield x
            return It(g())
        if meth == 'zip':
            o = self.as_iter(args[1])

            def g():
                while True:
                    x = it.next()
                    y = o.next()
                    if x is None or y is None:
                        return
                    yield [x, y]
            return It(g())
        if meth == 'nth':
            x = None
            for _ in range(args[1] + 1):
                x = it.next()
                if x is None:
                    return NONE()
            return SOME(x)
        if meth == 'inspect':
            f = args[1]

            def g():
                while True:
                    x = it.next()
                    if x is None:
                        return
                    self.call_closure(f, [Ref([x], 0)])
                    yield x
            return It(g())
        if meth in ('map_while',):
            f = args[1]

            def g():
                while True:
                    x = it.next()
                    if x is None:
                        return
                    r = self.call_closure(f, [x])
                    if r.variant == 0:
                        return
                    yield r.fields[0]
            return It(g())
        if meth == 'step_by':
            k = args[1]
            items = list(it.gen)
            return It(iter(items[::k]))
        if meth == 'scan':
            st_ = [args[1]]
            f = args[2]

            def g():
                while True:
                    x = it.next()
                    if x is None:
                        return
                    r = deref(self.call_closure(f, [Ref(st_, 0), x]))
                    if r.variant == 0:
                        return
                    yield r.fields[0]
            return It(g())
        if meth == 'len':
            items = list(it.gen)
            it.gen = iter(items)
            return len(items)
        if meth == 'is_empty':
            items = list(it.gen)
            it.gen = iter(items)
            return not items
        if meth in ('eq', 'ne') and len(args) == 2:
            a = list(it.gen)
            b = list(self.as_iter(args[1]).gen)
            r = len(a) == len(b) and all(self.truth(struct_eq(x, y)) for x, y in zip(a, b))
            return r if meth == 'eq' else not r
        if meth == 'product':
            r = 1
            for x in it.gen:
                r *= deref(x)
            return r
        if meth == 'unzip':
            a, b = [], []
            while True:
                x = it.next()
                if x is None:
                    return [a, b]
                a.append(x[0])
                b.append(x[1])
        if meth in ('min', 'max', 'sum', 'min_by_key', 'max_by_key'):
            items = list(it.gen)
            if meth == 'sum':
                return sum(deref(x) for x in items)
            if not items:
                return NONE()
            if meth in ('min', 'max'):
                ks = [self.cstr(x) if not isinstance(deref(x), int) else deref(x) for x in items]
            else:
                ks = []
                for x in items:
                    k = deref(self.call_closure(args[1], [Ref([x], 0)]))
                    ks.append(self.cstr(k) if not isinstance(k, int) else k)
            pick = (min if meth.startswith('min') else max)(range(len(items)), key=lambda i: (ks[i], i if meth.startswith('min') else i))
            return SOME(items[pick])
        if meth == 'fold':
            acc = args[1]
            while True:
                x = it.next()
                if x is None:
                    return acc
                acc = self.call_closure(args[2], [acc, x])
        if meth == 'reduce':
            acc = it.next()
            if acc is None:
                return NONE()
            while True:
                x = it.next()
                if x is None:
                    return SOME(acc)
                acc = self.call_closure(args[1], [acc, x])
        if meth == 'count':
            k = 0
            while it.next() is not None:
                k += 1
            return k
        if meth == 'collect':
            items = []
            tail = c0.split('collect', 1)[1]
            want_result = tail.startswith('::<Result<') or tail.startswith('::<std::result::Result<')
            want_map = 'HashMap' in tail or 'BTreeMap' in tail
            want_set = ('HashSet' in tail or 'BTreeSet' in tail) and not want_map
            tgt = tail[3:-1] if tail.startswith('::<') else ''
            want_string = tgt in ('String', 'std::string::String')
            while True:
                x = it.next()
                if x is None:
                    break
                if want_result:
                    if x.variant == 1:
                        return x
                    x = x.fields[0]
                items.append(x)
            if want_string:
                res = RString(self.rope_join([as_str(i) for i in items]))
            elif want_map:
                res = PyMap('btree' if 'BTreeMap' in tail else 'hash')
                for kv in items:
                    self.map_insert(res, kv[0], kv[1])
            elif want_set:
                res = PyMap('btree' if 'BTreeSet' in tail else 'hash')
                res.is_set = True
                for k in items:
                    self.map_insert(res, k, ())
            else:
                res = items
            return OK(res) if want_result else res
        return NotImplemented

    # ------------------------------------------------------------------ str
    def model_str(self, s0, meth, args, c0):
        if meth == 'is_empty':
            return self.smap(lambda s: len(s) == 0, s0)
        if meth == 'len':
            return self.smap(lambda s: len(s.encode()), s0)
        if meth == 'trim':
            return self.smap(lambda s: native.call('trim', s), s0)
        if meth == 'trim_start':
            return self.smap(lambda s: native.call('trim_start', s), s0)
        if meth == 'trim_end':
            return self.smap(lambda s: native.call('trim_end', s), s0)
        if meth == 'to_lowercase':
            return RString(self.smap(lambda s: native.call('to_lowercase', s), s0))
        if meth == 'to_uppercase':
            return RString(self.smap(lambda s: native.call('to_uppercase', s), s0))
        if meth in ('to_string', 'to_owned'):
            return RString(s0)
        if meth in ('starts_with', 'ends_with', 'contains'):
            pat = as_str(args[1])
            if isinstance(pat, (str, SymVal)):
                f = {'starts_with': lambda a, b: a.startswith(b), 'ends_with': lambda a, b: a.endswith(b), 'contains': lambda a, b: b in a}[meth]
                return self.smap(f, s0, pat)
            # a char predicate (fn item or closure) as pattern
            s = self.cstr(s0)
            chars = list(s)
            if meth == 'starts_with':
                chars = chars[:1]
            elif meth == 'ends_with':
                chars = chars[-1:]
            for ch in chars:
                if self.truth(self.call_closure(args[1], [ch])):
                    return True
            return False
        if meth in ('eq', 'ne'):
            return NotImplemented
        if meth == 'replace':
            return RString(self.smap(lambda s, a, b: s.replace(a, b), s0, as_str(args[1]), as_str(args[2])))
        # everything below works on a concrete string: fork on the alternatives
        s = self.cstr(s0)
        if meth == 'split_once':
            sep = self.cstr(args[1])
            i = s.find(sep)
            return NONE() if i < 0 else SOME([s[:i], s[i + len(sep):]])
        if meth == 'rsplit_once':
            sep = self.cstr(args[1])
            i = s.rfind(sep)
            return NONE() if i < 0 else SOME([s[:i], s[i + len(sep):]])
        if meth == 'split' and isinstance(deref(args[1]), list) and all(isinstance(ch, str) and len(ch) == 1 for ch in deref(args[1])):
            import re as _re
            return It(iter(_re.split('[' + ''.join(_re.escape(ch) for ch in deref(args[1])) + ']', s)))
        if meth == 'split' and isinstance(deref(args[1]), (Adt, tuple)) and not isinstance(deref(args[1]), str):
            parts, cur = [], ''
            for ch in s:
                if self.truth(self.call_closure(args[1], [ch])):
                    parts.append(cur)
                    cur = ''
                else:
                    cur += ch
            parts.append(cur)
            return It(iter(parts))
        if meth == 'split':
            return It(iter(s.split(self.cstr(args[1]))))
        if meth == 'rsplit':
            return It(iter(s.split(self.cstr(args[1]))[::-1]))
        if meth == 'lines':
            return It(iter(native.rust_lines(s)))
        if meth == 'split_whitespace':
            return It(iter(native.rust_split_whitespace(s)))
        if meth == 'chars':
            return It(iter(list(s)))
        if meth == 'bytes':
            return It(iter(list(s.encode())))
        if meth == 'strip_prefix':
            p = self.cstr(args[1])
            return SOME(s[len(p):]) if s.startswith(p) else NONE()
        if meth == 'strip_suffix':
            p = self.cstr(args[1])
            return SOME(s[:len(s) - len(p)]) if p and s.endswith(p) else (SOME(s) if not p else NONE())
        if meth in ('trim_matches', 'trim_start_matches', 'trim_end_matches'):
            pat = deref(args[1])
            def hit(ch):
                if isinstance(pat, str):
                    return ch == pat if len(pat) == 1 else False
                if isinstance(pat, list):
                    return ch in pat
                return self.truth(self.call_closure(args[1], [ch]))
            if isinstance(pat, str) and len(pat) != 1:
                t = s
                if meth != 'trim_end_matches':
                    while pat and t.startswith(pat):
                        t = t[len(pat):]
                if meth != 'trim_start_matches':
                    while pat and t.endswith(pat):
                        t = t[:-len(pat)]
                return t
            a, b = 0, len(s)
            if meth != 'trim_end_matches':
                while a < b and hit(s[a]):
                    a += 1
            if meth != 'trim_start_matches':
                while b > a and hit(s[b - 1]):
                    b -= 1
            return s[a:b]
        if meth == 'char_indices':
            out_, off = [], 0
            for ch in s:
                out_.append([off, ch])
                off += len(ch.encode())
            return It(iter(out_))
        if meth == 'split_at':
            k = args[1]
            b = s.encode()
            try:
                return [b[:k].decode(), b[k:].decode()]
            except UnicodeDecodeError:
                raise Panic('byte index is not a char boundary')
        if meth == 'rfind':
            i = s.rfind(self.cstr(args[1]))
            return NONE() if i < 0 else SOME(len(s[:i].encode()))
        if meth == 'eq_ignore_ascii_case':
            return s.lower() == self.cstr(args[1]).lower()
        if meth in ('to_ascii_lowercase', 'to_ascii_uppercase'):
            return RString(''.join((ch.lower() if meth.endswith('lowercase') else ch.upper()) if ch.isascii() else ch for ch in s))
        if meth == 'repeat':
            return RString(s * args[1])
        if meth == 'splitn':
            return It(iter(s.split(self.cstr(args[2]), args[1] - 1)))
        if meth == 'rsplitn':
            return It(iter(s.rsplit(self.cstr(args[2]), args[1] - 1)[::-1]))
        if meth == 'split_terminator':
            parts = s.split(self.cstr(args[1]))
            if parts and parts[-1] == '':
                parts.pop()
            return It(iter(parts))
        if meth == 'matches':
            return It(iter([self.cstr(args[1])] * s.count(self.cstr(args[1]))))
        if meth == 'is_char_boundary':
            b = s.encode()
            return args[1] == len(b) or (args[1] < len(b) and (b[args[1]] & 0xC0) != 0x80)
        if meth in ('index', 'get') and isinstance(deref(args[1]), Adt) and deref(args[1]).name.startswith('Range'):
            r = deref(args[1])
            b = s.encode()
            lo, hi = 0, len(b)
            if r.name == 'Range':
                lo, hi = r.fields
            elif r.name == 'RangeTo':
                hi = r.fields[0]
            elif r.name == 'RangeFrom':
                lo = r.fields[0]
            elif r.name == 'RangeInclusive':
                lo, hi = r.fields[0], r.fields[1] + 1
            if lo > hi or hi > len(b):
                if meth == 'get':
                    return NONE()
                raise Panic('str index out of range')
            try:
                piece = b[lo:hi].decode()
                b[:lo].decode()
            except UnicodeDecodeError:
                if meth == 'get':
                    return NONE()
                raise Panic('byte index is not a char boundary')
            return piece if meth == 'index' else SOME(piece)
        if meth == 'find':
            i = s.find(self.cstr(args[1]))
            return NONE() if i < 0 else SOME(len(s[:i].encode()))
        if meth == 'escape_default' or meth == 'escape_debug':
            return RString(native.escape_default(s) if meth == 'escape_default' else native.escape_debug(s))
        if meth == 'parse':
            tail = c0.split('parse', 1)[1]
            if 'Url' in tail or 'Url' in c0:
                r = native.url_parse(s)
                return OK(Url(r)) if r is not None else ERR(Opaque('url::ParseError'))
            m = re.search(r'::<([iu](?:8|16|32|64|128|size))>', tail)
            if m:
                t = m.group(1)
                if re.fullmatch(r'[+-]?[0-9]+', s) and not (t[0] == 'u' and s.startswith('-') and False):
                    v = int(s)
                    lo, hi = INT_RANGES[t]
                    if t[0] == 'u' and s.startswith('-'):
                        return ERR(Opaque('ParseIntError', 'InvalidDigit'))
                    if lo <= v <= hi:
                        return OK(v)
                    return ERR(Opaque('ParseIntError', 'Overflow'))
                return ERR(Opaque('ParseIntError', 'InvalidDigit' if s else 'Empty'))
            raise Unsupported('parse target ' + c0)
        return NotImplemented

    def model_string(self, a0, d0, meth, args, c0):
        if meth == 'push_str':
            d0.s = self.rope_join([d0.s, as_str(args[1])])
            return ()
        if meth == 'push':
            d0.s = self.rope_join([d0.s, args[1]])
            return ()
        if meth == 'insert_str':
            t = self.cstr(d0.s)
            b = t.encode()
            d0.s = b[:args[1]].decode() + self.cstr(args[2]) + b[args[1]:].decode()
            return ()
        if meth == 'clear':
            d0.s = ''
            return ()
        if meth == 'truncate':
            d0.s = self.cstr(d0.s).encode()[:args[1]].decode()
            return ()
        if meth == 'pop':
            t = self.cstr(d0.s)
            if not t:
                return NONE()
            d0.s = t[:-1]
            return SOME(t[-1])
        if meth == 'extend':
            o = self.as_iter(args[1])
            parts = [d0.s]
            while True:
                x = o.next()
                if x is None:
                    break
                parts.append(as_str(x))
            d0.s = self.rope_join(parts)
            return ()
        if meth == 'write_str':
            d0.s = self.rope_join([d0.s, as_str(args[1])])
            return OK(())
        if meth == 'is_empty':
            return self.smap(lambda s: len(s) == 0, d0.s)
        if meth == 'len':
            return self.smap(lambda s: len(s.encode()), d0.s)
        if meth in ('as_str', 'as_ref', 'borrow'):
            return d0.s
        if meth == 'into_boxed_str' or meth == 'into':
            return d0
        r = self.model_str(d0.s, meth, args, c0)
        return r


# ------------------------------------------------------------------------------------------------ exploration

def explore(machine_factory, entry, max_paths=20000, on_path=None):
    """DFS over decision vectors. entry(machine) -> result. Returns list of (machine, outcome) where outcome is
    ('ok', value) | ('panic', Panic) | ('diverge', Divergence)."""
    stack = [[]]
    results = []
    while stack:
        dec = stack.pop()
        m = machine_factory()
        m.decisions = list(dec)
        out = None
        try:
            r = entry(m)
            out = ('ok', r)
        except Infeasible:
            out = None
        except Panic as e:
            out = ('panic', e)
        except Divergence as e:
            out = ('diverge', e)
        if out is not None:
            results.append((m, out))
            if len(results) > max_paths:
                raise Unsupported('path budget exceeded (%d)' % max_paths)
        for i in range(len(dec), len(m.decisions)):
            if m.decisions[i] is True:
                stack.append(m.decisions[:i] + [False])
        if on_path is not None and out is not None:
            on_path(m, out)
    return results
