"""Native side of SMI: the helper service (real Inflector / url), the natively built zeep binary, the MIR dump."""
import atexit, os, re, shutil, subprocess, sys, hashlib
sys.path.insert(0, os.path.join(os.path.dirname(os.path.dirname(os.path.abspath(__file__))), 'lib'))
from common import *

HELPER_SRC = os.path.join(VERIF, 'smi/native_helper')
HELPER_TARGET = os.path.join(BUILD, 'helper_target')
NATIVE_TARGET = os.path.join(BUILD, 'native_target')
MIR_TARGET = os.path.join(BUILD, 'mir_target')
MIR_DIR = os.path.join(BUILD, 'mir')

_proc = None
_cache = {}


def build_helper():
    with Lock('helper'):
        work = os.path.join(BUILD, 'helper_crate')
        os.makedirs(os.path.join(work, 'src'), exist_ok=True)
        shutil.copyfile(os.path.join(HELPER_SRC, 'Cargo.toml'), os.path.join(work, 'Cargo.toml'))
        shutil.copyfile(os.path.join(HELPER_SRC, 'src/main.rs'), os.path.join(work, 'src/main.rs'))
        shutil.copyfile(os.path.join(REPO, 'Cargo.lock'), os.path.join(work, 'Cargo.lock'))
        rc, out, _ = run(['cargo', 'build', '--offline', '--release', '--target-dir', HELPER_TARGET], cwd=work, timeout=900)
        if rc != 0:
            raise RuntimeError('native helper build failed:\n' + out[-3000:])
    return os.path.join(HELPER_TARGET, 'release/smi-native-helper')


def _helper():
    global _proc
    if _proc is None or _proc.poll() is not None:
        exe = os.path.join(HELPER_TARGET, 'release/smi-native-helper')
        src = os.path.join(VERIF, 'smi/native_helper/src/main.rs')
        if not os.path.exists(exe) or os.path.getmtime(exe) < os.path.getmtime(src):
            exe = build_helper()
        _proc = subprocess.Popen([exe], stdin=subprocess.PIPE, stdout=subprocess.PIPE, text=True, bufsize=1)
        atexit.register(lambda: _proc.kill())
    return _proc


def call(op, s):
    key = (op, s)
    if key in _cache:
        return _cache[key]
    p = _helper()
    p.stdin.write('%s\t%s\n' % (op, s.encode().hex()))
    p.stdin.flush()
    line = p.stdout.readline().strip()
    r = None if line == '!' else bytes.fromhex(line).decode()
    _cache[key] = r
    return r


def inflect(meth, s):
    r = call(meth, s)
    if r is None:
        raise RuntimeError('inflector ' + meth)
    return r


def url_parse(s):
    return call('url', s)


def escape_default(s):
    return call('escape_default', s)


def escape_debug(s):
    return call('escape_debug', s)


# ------------------------------------------------------------------ native zeep

def build_zeep():
    """cargo build of /repo's working tree into /verif/build/native_target; returns path of the zeep binary"""
    with Lock('native'):
        rc, out, wall = run(['cargo', 'build', '--offline', '-p', 'zeep', '--manifest-path', os.path.join(REPO, 'Cargo.toml'),
                             '--target-dir', NATIVE_TARGET], timeout=1800)
        if rc != 0:
            raise RuntimeError('native build of /repo failed:\n' + out[-3000:])
    return os.path.join(NATIVE_TARGET, 'debug/zeep')


def run_zeep(exe, input_path, output_path=None, cwd=None, timeout=60):
    cmd = [exe, '-i', input_path]
    if output_path:
        cmd += ['-o', output_path]
    return run(cmd, cwd=cwd, timeout=timeout, mem_kb=4_000_000)


# ------------------------------------------------------------------ MIR dump

def mir_paths():
    h = src_hash()
    d = os.path.join(MIR_DIR, h)
    return d, os.path.join(d, 'zeep_lib.mir'), os.path.join(d, 'zeep_bin.mir')


def dump_mir():
    """MIR of zeep-lib and zeep from /repo's working tree (nightly), cached by source hash. Never writes into /repo."""
    d, lib, binp = mir_paths()
    if os.path.exists(lib) and os.path.exists(binp) and os.path.getsize(lib) > 1000:
        return lib, binp
    with Lock('mir'):
        if os.path.exists(lib) and os.path.exists(binp) and os.path.getsize(lib) > 1000:
            return lib, binp
        os.makedirs(d, exist_ok=True)
        env = dict(ENV, CARGO_TARGET_DIR=MIR_TARGET)
        # force a re-run of rustc for the two local crates (cargo prints nothing for fresh units)
        fp = os.path.join(MIR_TARGET, 'debug/.fingerprint')
        if os.path.isdir(fp):
            for f in os.listdir(fp):
                if re.match(r'zeep(-lib)?-[0-9a-f]+$', f):
                    shutil.rmtree(os.path.join(fp, f), ignore_errors=True)
        for pkg, kind, outp in (('zeep-lib', ['--lib'], lib), ('zeep', ['--bin', 'zeep'], binp)):
            p = subprocess.run(['cargo', '+nightly', 'rustc', '--offline', '-p', pkg] + kind + ['--', '-Zunpretty=mir', '-C', 'debug-assertions=off', '-C', 'overflow-checks=on'],
                               cwd=REPO, env=env, stdout=subprocess.PIPE, stderr=subprocess.PIPE, text=True, timeout=1800)
            if p.returncode != 0 or len(p.stdout) < 100:
                raise RuntimeError('MIR dump of %s failed:\n%s' % (pkg, p.stderr[-3000:]))
            with open(outp + '.tmp', 'w') as f:
                f.write(p.stdout)
            os.replace(outp + '.tmp', outp)
        # keep only the three most recent dumps
        ds = sorted((os.path.getmtime(os.path.join(MIR_DIR, x)), x) for x in os.listdir(MIR_DIR))
        for _, x in ds[:-3]:
            shutil.rmtree(os.path.join(MIR_DIR, x), ignore_errors=True)
    return lib, binp


# ------------------------------------------------------------------ native driver (real zeep-lib behind a CLI)
DRIVER_TARGET = os.path.join(BUILD, 'driver_target')


def build_driver():
    with Lock('driver'):
        work = os.path.join(BUILD, 'driver_crate')
        os.makedirs(os.path.join(work, 'src'), exist_ok=True)
        toml = open(os.path.join(VERIF, 'smi/native_driver/Cargo.toml.in')).read().replace('@REPO@', REPO)
        open(os.path.join(work, 'Cargo.toml'), 'w').write(toml)
        shutil.copyfile(os.path.join(VERIF, 'smi/native_driver/src/main.rs'), os.path.join(work, 'src/main.rs'))
        shutil.copyfile(os.path.join(REPO, 'Cargo.lock'), os.path.join(work, 'Cargo.lock'))
        rc, out, _ = run(['cargo', 'build', '--offline', '--target-dir', DRIVER_TARGET], cwd=work, timeout=1800)
        if rc != 0:
            raise RuntimeError('native driver build failed:\n' + out[-3000:])
    return os.path.join(DRIVER_TARGET, 'debug/smi-native-driver')


def run_driver(exe, d, start, out, fail_at=None, repeat=1, order=None, short=False, timeout=120, kind=None, once=False):
    cmd = [exe, 'gen', d, start, out]
    if fail_at is not None:
        cmd += ['--fail-at', str(fail_at)]
    if repeat != 1:
        cmd += ['--repeat', str(repeat)]
    if order:
        cmd += ['--order', ','.join(order)]
    if short:
        cmd += ['--short']
    if kind:
        cmd += ['--kind', kind]
    if once:
        cmd += ['--once']
    return run(cmd, timeout=timeout, mem_kb=4_000_000)


def rust_lines(s):
    n = int(call('lines_count', s))
    return call('lines', s).split('\0') if n else []


def rust_split_whitespace(s):
    n = int(call('split_whitespace_count', s))
    return call('split_whitespace', s).split('\0') if n else []


_CLASS = ('is_alphabetic', 'is_numeric', 'is_alphanumeric', 'is_whitespace', 'is_uppercase', 'is_lowercase', 'is_control')


def char_is(pred, ch):
    """char::<pred>(ch) answered by the real std"""
    return call('charclass', ch)[_CLASS.index(pred)] == '1'
