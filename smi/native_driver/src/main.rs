// Native replay driver: the real zeep-lib (path dependency on /repo) behind a small command line.
//   driver gen <dir> <start> <out> [--fail-at K] [--repeat N] [--order a,b,c]
// Reads every file of <dir> into Files (in --order if given, else sorted), calls read_xml / write_xml N times on the
// SAME FilesToRead, each into a writer that fails at write call K (counted per write!/writeln! call). Prints
//   RUN i: OK bytes=<n> | READ_ERR <debug> | WRITE_ERR <debug> | PANIC <msg>
// and stores the bytes of run i in <out>.<i>.
use std::io::Write;
use std::panic::{catch_unwind, AssertUnwindSafe};
use zeep_lib::reader::{Files, FilesToRead, WriteXml, XmlReader};

struct FailingWriter {
    buf: Vec<u8>,
    n: usize,
    k: Option<usize>,
    short: bool,
    kind: std::io::ErrorKind,
    once: bool,
    in_fmt: bool,
}
impl FailingWriter {
    // one failure point = one write!/writeln! call, or one raw write call that reaches the sink outside of one (a BufWriter
    // flushing into it); --once: only call k fails, later calls are accepted again
    fn gate(&mut self) -> std::io::Result<()> {
        if self.k == Some(self.n) {
            if self.once {
                self.n += 1;
            }
            return Err(std::io::Error::new(self.kind, "injected"));
        }
        self.n += 1;
        Ok(())
    }
}
impl Write for FailingWriter {
    fn write(&mut self, b: &[u8]) -> std::io::Result<usize> {
        if !self.in_fmt && !self.short {
            self.gate()?;
        }
        if self.short && b.len() > 1 {
            self.buf.push(b[0]);
            return Ok(1);
        }
        self.buf.extend_from_slice(b);
        Ok(b.len())
    }
    fn flush(&mut self) -> std::io::Result<()> {
        Ok(())
    }
    fn write_fmt(&mut self, args: std::fmt::Arguments<'_>) -> std::io::Result<()> {
        self.gate()?;
        let s = std::fmt::format(args);
        self.in_fmt = true;
        let r = self.write_all(s.as_bytes());
        self.in_fmt = false;
        r
    }
}

fn main() {
    let a: Vec<String> = std::env::args().collect();
    if a.len() < 5 || a[1] != "gen" {
        eprintln!("usage: driver gen <dir> <start> <out> [--fail-at K] [--repeat N] [--order a,b] [--short] [--once]");
        std::process::exit(64);
    }
    let (dir, start, out) = (&a[2], &a[3], &a[4]);
    let mut k = None;
    let mut repeat = 1;
    let mut order: Option<Vec<String>> = None;
    let mut short = false;
    let mut once = false;
    let mut kind = std::io::ErrorKind::Other;
    let mut i = 5;
    while i < a.len() {
        match a[i].as_str() {
            "--fail-at" => { k = Some(a[i + 1].parse().unwrap()); i += 2; }
            "--repeat" => { repeat = a[i + 1].parse().unwrap(); i += 2; }
            "--order" => { order = Some(a[i + 1].split(',').map(str::to_string).collect()); i += 2; }
            "--short" => { short = true; i += 1; }
            "--once" => { once = true; i += 1; }
            "--kind" => {
                kind = match a[i + 1].as_str() {
                    "BrokenPipe" => std::io::ErrorKind::BrokenPipe,
                    "WriteZero" => std::io::ErrorKind::WriteZero,
                    "Interrupted" => std::io::ErrorKind::Interrupted,
                    "PermissionDenied" => std::io::ErrorKind::PermissionDenied,
                    "StorageFull" => std::io::ErrorKind::StorageFull,
                    "TimedOut" => std::io::ErrorKind::TimedOut,
                    "UnexpectedEof" => std::io::ErrorKind::UnexpectedEof,
                    _ => std::io::ErrorKind::Other,
                };
                i += 2;
            }
            _ => { i += 1; }
        }
    }
    let mut names: Vec<String> = match order {
        Some(o) => o,
        None => {
            let mut v: Vec<String> = std::fs::read_dir(dir).unwrap().map(|e| e.unwrap().file_name().to_string_lossy().to_string()).collect();
            v.sort();
            v
        }
    };
    names.retain(|n| std::path::Path::new(dir).join(n).is_file());
    let read = |n: &str| std::fs::read_to_string(std::path::Path::new(dir).join(n)).unwrap();
    let mut files = Files::new(&names[0], read(&names[0]));
    for n in &names[1..] {
        files.add(n, read(n));
    }
    let ftr = FilesToRead::new(start, files);
    std::panic::set_hook(Box::new(|_| {}));
    for run in 0..repeat {
        let mut w = FailingWriter { buf: Vec::new(), n: 0, k, short, kind, once, in_fmt: false };
        let r = catch_unwind(AssertUnwindSafe(|| match XmlReader::read_xml(&ftr) {
            Err(e) => format!("READ_ERR {e:?}"),
            Ok(doc) => match doc.write_xml(&mut w) {
                Ok(()) => format!("OK bytes={}", w.buf.len()),
                Err(e) => format!("WRITE_ERR {e:?}"),
            },
        }));
        match r {
            Ok(s) => println!("RUN {run}: {s} writes={}", w.n),
            Err(p) => {
                let msg = p.downcast_ref::<String>().cloned().or_else(|| p.downcast_ref::<&str>().map(|s| s.to_string())).unwrap_or_default();
                println!("RUN {run}: PANIC {msg}")
            }
        }
        std::fs::write(format!("{out}.{run}"), &w.buf).unwrap();
    }
}
