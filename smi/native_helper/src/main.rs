// The real Inflector and url crates (same versions as /repo/Cargo.lock), as a line-oriented service:
// request  "<op>\t<hex of utf8 arg>"   reply "<hex of utf8 result>" or "!" (error / None)
use std::io::{BufRead, Write};

fn hex(s: &str) -> String {
    s.bytes().map(|b| format!("{b:02x}")).collect()
}
fn unhex(s: &str) -> String {
    let b: Vec<u8> = (0..s.len() / 2).map(|i| u8::from_str_radix(&s[2 * i..2 * i + 2], 16).unwrap()).collect();
    String::from_utf8(b).unwrap()
}

fn main() {
    let stdin = std::io::stdin();
    let mut out = std::io::stdout();
    for line in stdin.lock().lines() {
        let line = line.unwrap();
        let (op, arg) = line.split_once('\t').unwrap_or((line.as_str(), ""));
        let a = unhex(arg);
        let r: Option<String> = match op {
            "to_pascal_case" => Some(inflector::cases::pascalcase::to_pascal_case(&a)),
            "to_snake_case" => Some(inflector::cases::snakecase::to_snake_case(&a)),
            "to_camel_case" => Some(inflector::cases::camelcase::to_camel_case(&a)),
            "url" => url::Url::parse(&a).ok().map(|u| u.to_string()),
            "escape_default" => Some(a.escape_default().to_string()),
            "escape_debug" => Some(a.escape_debug().to_string()),
            "debug" => Some(format!("{a:?}")),
            // std string operations whose Unicode tables differ from Python's: answered by the real std
            "trim" => Some(a.trim().to_string()),
            "trim_start" => Some(a.trim_start().to_string()),
            "trim_end" => Some(a.trim_end().to_string()),
            "to_lowercase" => Some(a.to_lowercase()),
            "to_uppercase" => Some(a.to_uppercase()),
            "lines" => Some(a.lines().collect::<Vec<_>>().join("\u{0}")),
            "lines_count" => Some(a.lines().count().to_string()),
            "split_whitespace" => Some(a.split_whitespace().collect::<Vec<_>>().join("\u{0}")),
            "split_whitespace_count" => Some(a.split_whitespace().count().to_string()),
            "charclass" => a.chars().next().map(|c| {
                let flags = [
                    c.is_alphabetic(), c.is_numeric(), c.is_alphanumeric(), c.is_whitespace(), c.is_uppercase(), c.is_lowercase(), c.is_control(),
                ];
                flags.iter().map(|f| if *f { '1' } else { '0' }).collect()
            }),
            _ => None,
        };
        match r {
            Some(s) => writeln!(out, "{}", hex(&s)).unwrap(),
            None => writeln!(out, "!").unwrap(),
        }
        out.flush().unwrap();
    }
}
