// The real Inflector and url crates (same versions as /repo/Cargo.lock), as a line-oriented service:
// request  "<op>\t<hex of utf8 arg>"   reply "<hex of utf8 result>" or "!" (error / None)
use std::io::{BufRead, Write};

fn hex(s: &str) -> String {
    s.bytes().map(|b| format!("{b:02x}")).collect()
}
fn unhex(s: &str) -> String {
    let b: Vec<u8> = (0..s.len() / 2).map(|i| u8::from_str_radix(&s[2 * i..2 * i + 2], 16).unwrap()).collect();
    String::from_utf8(b).unwrap()
}

fn main() {
    let stdin = std::io::stdin();
    let mut out = std::io::stdout();
    for line in stdin.lock().lines() {
        let line = line.unwrap();
        let (op, arg) = line.split_once('\t').unwrap_or((line.as_str(), ""));
        let a = unhex(arg);
        let r: Option<String> = match op {
            "to_pascal_case" => Some(inflector::cases::pascalcase::to_pascal_case(&a)),
            "to_snake_case" => Some(inflector::cases::snakecase::to_snake_case(&a)),
            "to_camel_case" => Some(inflector::cases::camelcase::to_camel_case(&a)),
            "url" => url::Url::parse(&a).ok().map(|u| u.to_string()),
            "escape_default" => Some(a.escape_default().to_string()),
            "escape_debug" => Some(a.escape_debug().to_string()),
            "debug" => Some(format!("{a:?}")),
            _ => None,
        };
        match r {
            Some(s) => writeln!(out, "{}", hex(&s)).unwrap(),
            None => writeln!(out, "!").unwrap(),
        }
        out.flush().unwrap();
    }
}
