"""Oracles: reference expectations (from the abstract schema model, never from zeep) compared with the parsed output.
Every comparison yields bool or SymVal(bool); the caller turns 'False somewhere' into a z3 query under the path condition."""
import re
from sym import SymVal, smap
from schema_model import *
from rustout import parse_output, sym_eq, one, Structure


class Check:
    """one assertion instance: key (assertion id), what (human text), ok (bool | SymVal(bool)), cls (witness class fn)"""

    def __init__(self, key, what, ok, cls=None):
        self.key, self.what, self.ok, self.cls = key, what, ok, cls


def flatten_members(env, sch, ct):
    """declared members of a complex type in declaration order: list of dicts"""
    out = []

    def walk(p, enc):
        for q in p.items:
            if isinstance(q, (Seq, Choice)):
                walk(q, enc + [(q.min, q.max, isinstance(q, Choice))])
            elif isinstance(q, Note):
                continue
            elif isinstance(q, Any):
                out.append(dict(kind='any'))
            else:
                out.append(dict(kind='element', el=q, enc=list(enc)))
    if ct.content is not None:
        walk(Seq([ct.content]) if not isinstance(ct.content, (Seq, Choice)) else Seq([ct.content]), [])
    for a in list(ct.attrs) + list(getattr(ct, 'ext_attrs', [])):
        out.append(dict(kind='attribute', at=a))
    return out


def _occ_kind(env, mem):
    el = mem['el']

    def f(mn, mx, *rest):
        pmn = pmx = None
        in_choice = False
        for i in range(0, len(rest), 3):
            a, b, c = rest[i], rest[i + 1], rest[i + 2]
            if a == '0':
                pmn = '0'
            if b not in (None, ABSENT, '0', '1'):
                pmx = b
            in_choice = in_choice or c
        return occurs(mn, mx, pmn, pmx, in_choice)
    args = [el.min, el.max]
    # every enclosing particle counts, the content particle itself (ct.content, enc[0]) included: its occurrence and whether it is a choice
    for (a, b, c) in mem['enc']:
        args += [a, b, c]
    return env.map(f, *args)


def module_index(items):
    """structs by (module, name) from the parsed output; both may be symbolic -> use representative + sym compare later"""
    return [it for it in items if it.kind == 'struct']


def find_structs(items, name, allowed=None, module=None):
    """structs whose name equals `name` under every alternative (structure must not depend on symbols); module: only
    structs emitted inside that Rust module (two namespaces may both define a type of this name)"""
    out = []
    for it in items:
        if it.kind != 'struct':
            continue
        if module is not None and one(it.module) != module:
            continue
        eq = sym_eq(it.name, name, allowed)
        if eq is True:
            out.append(it)
        elif isinstance(eq, SymVal):
            if all(eq.values()):
                out.append(it)
            elif any(eq.values()):
                out.append(it)      # equal for some assignments: treat as candidate; the name check below decides
    return out


def type_text(env, qname, mod_of_prefix, xs='xs'):
    def f(q):
        p, l = split_qname(q)
        if p == xs and l in BUILTINS:
            return BUILTINS[l]
        if p is None and l in BUILTINS:
            return BUILTINS[l]
        return '%s::%s' % (mod_of_prefix.get(p, '?'), pascal(l))
    return env.map(f, qname)


def expected_fields(env, sch, ct, mod_of_prefix, base_fields=None):
    """[(rename, ident_expected, type_text, is_attr)] with symbolic entries"""
    out = list(base_fields or [])
    for mem in flatten_members(env, sch, ct):
        if mem['kind'] == 'any':
            out.append(dict(rename='body', ident='body', type='Option<String>', attr=False, any=True))
        elif mem['kind'] == 'element':
            el = mem['el']
            kind = _occ_kind(env, mem)
            if el.ref is not None:
                rename = env.map(lambda q: split_qname(q)[1], el.ref)
                t = env.map(lambda q: '%s::%s' % (mod_of_prefix.get(split_qname(q)[0], '?'), pascal(split_qname(q)[1])), el.ref)
                nsp = env.map(lambda q: split_qname(q)[0], el.ref)
            else:
                rename = env.v(el.name)
                t = type_text(env, el.type, mod_of_prefix, sch.xs) if el.type is not None else 'String'
                nsp = None
            ty = smap(wrap, kind, t, allowed=env.allowed)
            out.append(dict(rename=rename, ident=env.map(field_ident, rename) if not isinstance(rename, str) else field_ident(rename),
                            type=ty, attr=False, occ=kind, decl_prefix=nsp))
        else:
            at = mem['at']
            rename = env.v(at.name)
            t = type_text(env, at.type, mod_of_prefix, sch.xs)
            kind = env.map(lambda u: 'one' if u == 'required' else 'opt', at.use)
            ty = smap(wrap, kind, t, allowed=env.allowed)
            out.append(dict(rename=rename, ident=env.map(field_ident, rename) if not isinstance(rename, str) else field_ident(rename),
                            type=ty, attr=True, occ=kind))
    return out


def attr_get(attrs, key):
    def f(t):
        if t is None:
            return None
        for k, v in t:
            if k == key:
                return v
        return None
    return smap(f, attrs)


def check_struct_members(env, items, sch, ct, struct_name, mod_of_prefix, base_fields=None, prefix_of_ns=None, tag='', module=None):
    """C02/C03/C08 obligations for one complex type. Returns list[Check]."""
    out = []
    name = env.map(pascal, struct_name)
    cands = find_structs(items, name, env.allowed, module)
    n = len(cands)
    out.append(Check('struct-exactly-once', 'exactly one struct for %s%s (found %d)' % (one(struct_name), tag, n), n == 1,
                     cls=(lambda p, nm=one(struct_name), n=n: '%s found=%d' % (nm, n))))
    if n != 1:
        return out
    st = cands[0]
    out.append(Check('struct-name', 'struct for %s is named in PascalCase' % one(struct_name), sym_eq(st.name, name, env.allowed)))
    exp = expected_fields(env, sch, ct, mod_of_prefix, base_fields)
    out.append(Check('member-count', '%s: %d fields emitted, %d members declared (nothing dropped, nothing added)' % (one(struct_name), len(st.fields), len(exp)),
                     len(st.fields) == len(exp), cls=lambda p: 'emitted=%d declared=%d' % (len(st.fields), len(exp))))
    if len(st.fields) != len(exp):
        # still compare the common prefix so that the first divergence is reported
        pass
    for i, (fa, fd) in enumerate(st.fields[:len(exp)]):
        e = exp[i]
        what = '%s field #%d' % (one(struct_name), i)
        ident = smap(lambda t: t[0], fd)
        ftype = smap(lambda t: t[1], fd)
        out.append(Check('member-ident', what + ': snake_case (raw-escaped) identifier', smap(ident_ok, ident, e['ident'], allowed=env.allowed)))
        out.append(Check('member-type', what + ': type / occurrence wrapper', sym_eq(ftype, e['type'], env.allowed), cls=None))
        out.append(Check('member-rename', what + ': rename = declared XML name', sym_eq(attr_get(fa, 'rename'), e['rename'], env.allowed)))
        is_attr = smap(lambda v: v == 'true', attr_get(fa, 'attribute'))
        out.append(Check('member-attribute-flag', what + ': attribute flag', sym_eq(is_attr, e['attr'], env.allowed)))
    st.expected = exp
    return out
