"""A small Rust lexer that can be run over a rope with symbolic pieces (its state becomes a SymVal).

lex(state, text) -> (state', tokens): tokens are *erased*: string literals -> 'STR', comments -> nothing, legal
identifiers -> 'ID', keywords -> 'KW:<word>', illegal raw identifiers -> 'BADRAW:<word>', numbers -> 'NUM',
punctuation -> the character. Schema text is data iff the erased token stream does not depend on it."""
import json, os

VERIF = os.path.dirname(os.path.dirname(os.path.abspath(__file__)))
_KW = json.load(open(os.path.join(VERIF, 'reference/keywords.json')))
KEYWORDS = set(_KW['strict'] + _KW['reserved'])
NON_RAW = set(_KW['non_raw'])

CODE = ('code', '')        # ('code', pending identifier/number text)


def is_ident_start(c):
    # Rust identifiers follow Unicode XID_Start / XID_Continue, which is what str.isidentifier implements
    return c == '_' or c.isidentifier()


def is_ident_char(c):
    return c == '_' or ('a' + c).isidentifier()


def finish_word(w, toks):
    if not w:
        return
    if w.startswith('r#'):
        body = w[2:]
        toks.append('BADRAW:' + body if (body in NON_RAW or not body) else 'ID')
    elif w[0].isdigit():
        toks.append('NUM')
    elif w in KEYWORDS:
        toks.append('KW:' + w)
    elif w == '_':
        toks.append('KW:_')
    else:
        toks.append('ID')


def lex(state, text):
    """one step of the lexer over a chunk of text. state: tuple (mode, aux)"""
    toks = []
    mode, aux = state
    i = 0
    n = len(text)
    while i < n:
        c = text[i]
        if mode == 'code':
            w = aux
            if w and (is_ident_char(c) or (w == 'r' and c == '#') or (w == 'r#' and is_ident_start(c)) or (w[0].isdigit() and (c.isalnum() or c == '.' or c == '_'))):
                aux = w + c
                i += 1
                continue
            if w in ('r', 'br', 'b') and c == '"':
                # raw / byte string start (r"..." with zero hashes)
                aux = ''
                mode, aux = ('rstr', (0, 0)) if w != 'b' else ('str', False)
                i += 1
                continue
            if w.startswith('r#') and set(w[2:]) <= {'#'} and c == '"':
                mode, aux = 'rstr', (len(w) - 1, 0)
                i += 1
                continue
            if w:
                finish_word(w, toks)
                aux = ''
                continue
            if is_ident_start(c) or c.isdigit():
                aux = c
            elif c == '"':
                mode, aux = 'str', False
            elif c == '/' and text.startswith('//', i):
                mode, aux = 'lc', ''
                i += 1
            elif c == '/' and text.startswith('/*', i):
                mode, aux = 'bc', 1
                i += 1
            elif c == '/' and i == n - 1:
                mode, aux = 'slash', ''       # might start a comment in the next chunk
            elif c.isspace():
                pass
            else:
                toks.append(c)
            i += 1
        elif mode == 'slash':
            if c == '/':
                mode, aux = 'lc', ''
            elif c == '*':
                mode, aux = 'bc', 1
            else:
                toks.append('/')
                mode, aux = 'code', ''
                continue
            i += 1
        elif mode == 'str':
            if aux:              # after a backslash
                aux = False
            elif c == '\\':
                aux = True
            elif c == '"':
                toks.append('STR')
                mode, aux = 'code', ''
            i += 1
        elif mode == 'rstr':
            hashes, seen = aux
            if seen == 0 and c == '"':
                if hashes == 0:
                    toks.append('STR')
                    mode, aux = 'code', ''
                else:
                    aux = (hashes, 1)
            elif seen >= 1:
                if c == '#':
                    if seen == hashes:
                        toks.append('STR')
                        mode, aux = 'code', ''
                    else:
                        aux = (hashes, seen + 1)
                elif c == '"':
                    aux = (hashes, 1)
                else:
                    aux = (hashes, 0)
            i += 1
        elif mode == 'lc':
            if c == '\n':
                mode, aux = 'code', ''
            elif c == '\r':
                toks.append('BARE-CR-IN-COMMENT')
            i += 1
        elif mode == 'bc':
            if text.startswith('*/', i):
                aux -= 1
                i += 2
                if aux == 0:
                    mode, aux = 'code', ''
                continue
            if text.startswith('/*', i):
                aux += 1
                i += 2
                continue
            i += 1
    return (mode, aux), tuple(toks)


def erase_state(st):
    """state without the text of a pending identifier (identifier text may legitimately depend on schema names)"""
    mode, aux = st
    if mode == 'code':
        return ('code', 'w' if aux else '')
    return st


def unescape(s):
    """value of the contents of a normal Rust string literal (None when it is not a valid literal body)"""
    out = []
    i = 0
    n = len(s)
    while i < n:
        c = s[i]
        if c == '"':
            return None
        if c != '\\':
            out.append(c)
            i += 1
            continue
        i += 1
        if i >= n:
            return None
        e = s[i]
        if e == 'n':
            out.append('\n')
        elif e == 'r':
            out.append('\r')
        elif e == 't':
            out.append('\t')
        elif e == '0':
            out.append('\0')
        elif e in '\\"\'':
            out.append(e)
        elif e == 'x' and i + 2 < n + 0 and all(ch in '0123456789abcdefABCDEF' for ch in s[i + 1:i + 3]) and len(s[i + 1:i + 3]) == 2:
            out.append(chr(int(s[i + 1:i + 3], 16)))
            i += 2
        elif e == 'u' and s.startswith('{', i + 1) and '}' in s[i:]:
            j = s.index('}', i)
            try:
                out.append(chr(int(s[i + 2:j].replace('_', ''), 16)))
            except ValueError:
                return None
            i = j
        elif e == '\n':
            # line continuation: skips following whitespace
            i += 1
            while i < n and s[i] in ' \t\n\r':
                i += 1
            continue
        else:
            return None
        i += 1
    return ''.join(out)
