"""Reader for the Rust text zeep emits, tolerant of symbolic pieces.

A rope is the list of write calls (str | SymVal pieces). It is joined, split into lines at concrete newlines, and
parsed into items (modules, structs with fields + yaserde attributes, check_restrictions impls, type aliases,
async fns). Every parsed datum is a str or a SymVal(str/tuple); comparisons with the reference model are made with
sym_eq -> z3 condition -> solver."""
import re
import z3
from sym import SymVal, smap, lift, g_or, TRUE


class Structure(Exception):
    """the line structure of the output depends on symbolic text (a symbolic piece contains a newline, or
    alternatives classify differently)"""
    pass


def split_lines(rope):
    """rope -> list of lines; each line is a list of pieces (str | SymVal)"""
    lines = [[]]
    for p in rope:
        if isinstance(p, SymVal):
            if any('\n' in v for v in p.values() if isinstance(v, str)):
                raise Structure('symbolic piece with a newline')
            lines[-1].append(p)
        else:
            parts = p.split('\n')
            for i, part in enumerate(parts):
                if i:
                    lines.append([])
                if part:
                    lines[-1].append(part)
    return lines


def join_line(pieces, allowed=None):
    if all(isinstance(p, str) for p in pieces):
        return ''.join(pieces)
    return smap(lambda *xs: ''.join(xs), *pieces, allowed=allowed)


def one(v):
    """a representative concrete value"""
    return v.alts[0][1] if isinstance(v, SymVal) else v


def uniform(v, f):
    """f(v) must give the same answer for every alternative; returns it"""
    if not isinstance(v, SymVal):
        return f(v)
    rs = {f(x) for x in v.values()}
    if len(rs) != 1:
        raise Structure('alternatives classify differently: %r' % (sorted(map(str, rs))[:4],))
    return rs.pop()


def classify(line):
    s = line.strip()
    if s.startswith('///'):
        return 'doc'
    if s.startswith('//!') or s.startswith('//'):
        return 'comment'
    if s.startswith('#[derive'):
        return 'derive'
    if s.startswith('#[yaserde'):
        return 'yaserde'
    if s.startswith('#!['):
        return 'inner_attr'
    if re.match(r'pub mod \S+ \{$', s):
        return 'mod'
    if re.match(r'pub struct \S+ \{$', s):
        return 'struct'
    if re.match(r'pub type ', s):
        return 'alias'
    if re.match(r'impl restrictions::CheckRestrictions for ', s):
        return 'impl_check'
    if re.match(r'impl \S+ \{$', s):
        return 'impl'
    if re.match(r'pub async fn ', s):
        return 'async_fn'
    if re.match(r'pub fn ', s):
        return 'fn'
    if re.match(r'pub (r#)?[\w#]+: .*', s):
        return 'field'
    if s == '}':
        return 'close'
    if s == '':
        return 'blank'
    if s.startswith('/*'):
        return 'block_comment'
    if s.startswith('use '):
        return 'use'
    return 'other'


def parse_yaserde(s):
    """'#[yaserde(prefix = "a", rename = "b", attribute = true)]' -> sorted tuple of (key, value)"""
    m = re.match(r'\s*#\[yaserde\((.*)\)\]\s*$', s)
    if not m:
        return (('?', s.strip()),)
    body = m.group(1)
    out = []
    i = 0
    n = len(body)
    while i < n:
        mk = re.match(r'\s*,?\s*(\w+)\s*=\s*', body[i:])
        if not mk:
            break
        i += mk.end()
        key = mk.group(1)
        if body[i] == '"':
            j = i + 1
            while j < n and body[j] != '"':
                j += 2 if body[j] == '\\' else 1
            val = body[i + 1:j]
            i = j + 1
        elif body[i] == '{':
            depth = 0
            j = i
            instr = False
            while j < n:
                if body[j] == '"':
                    instr = not instr
                elif not instr and body[j] == '{':
                    depth += 1
                elif not instr and body[j] == '}':
                    depth -= 1
                    if depth == 0:
                        break
                j += 1
            inner = body[i + 1:j]
            val = tuple(sorted(re.findall(r'"([^"]*)"\s*=\s*"([^"]*)"', inner)))
            i = j + 1
        else:
            mv = re.match(r'[^,]+', body[i:])
            val = mv.group(0).strip()
            i += mv.end()
        out.append((key, val))
    return tuple(sorted(out, key=lambda kv: kv[0]))


def parse_field(s):
    m = re.match(r'\s*pub ((?:r#)?\w+): (.*?),?\s*$', s)
    if not m:
        return ('?', s.strip())
    return (m.group(1), m.group(2).strip())


class Item:
    def __init__(self, kind, **kw):
        self.kind = kind
        self.__dict__.update(kw)

    def __repr__(self):
        return 'Item(%s %s)' % (self.kind, {k: v for k, v in self.__dict__.items() if k != 'kind'})


def parse_output(rope, allowed=None, header_lines=0):
    """-> list of Items in order. struct: name, module, doc[], attrs (yaserde struct-level tuple|None), fields[(attr tuple, (name,type))]
    impl_check: name, body[list of lines]; mod; alias; async_fn: sig line; service impl"""
    lines = [join_line(l, allowed) for l in split_lines(rope)]
    kinds = [uniform(l, classify) for l in lines]
    items = []
    mod = None
    i = 0
    n = len(lines)
    pending_doc = []
    pending_attr = None
    while i < n:
        k = kinds[i]
        L = lines[i]
        if k == 'mod':
            mod = smap(lambda s: re.match(r'\s*pub mod (\S+) \{', s).group(1), L)
            items.append(Item('mod', name=mod, line=i))
        elif k == 'doc':
            pending_doc.append(L)
        elif k == 'yaserde':
            pending_attr = smap(parse_yaserde, L)
        elif k == 'derive':
            pass
        elif k == 'struct':
            name = smap(lambda s: re.match(r'\s*pub struct (\S+) \{', s).group(1), L)
            fields = []
            fattr = None
            j = i + 1
            while j < n and kinds[j] != 'close':
                if kinds[j] == 'yaserde':
                    fattr = smap(parse_yaserde, lines[j])
                elif kinds[j] == 'field':
                    fields.append((fattr, smap(parse_field, lines[j])))
                    fattr = None
                elif kinds[j] in ('blank', 'doc', 'comment'):
                    pass
                else:
                    raise Structure('unexpected line in struct: %r' % (one(lines[j]),))
                j += 1
            items.append(Item('struct', name=name, module=mod, doc=pending_doc, attrs=pending_attr, fields=fields, line=i))
            pending_doc = []
            pending_attr = None
            i = j
        elif k == 'alias':
            items.append(Item('alias', text=L, module=mod, line=i))
            pending_doc = []
        elif k == 'impl_check':
            name = smap(lambda s: re.match(r'\s*impl restrictions::CheckRestrictions for (\S+) \{', s).group(1), L)
            body = []
            j = i + 1
            depth = 1
            while j < n:
                s1 = one(lines[j])
                depth += s1.count('{') - s1.count('}')
                if depth <= 0:
                    break
                body.append(lines[j])
                j += 1
            items.append(Item('impl_check', name=name, module=mod, body=body, line=i))
            i = j
        elif k == 'impl':
            name = smap(lambda s: re.match(r'\s*impl (\S+) \{', s).group(1), L)
            items.append(Item('impl', name=name, line=i))
        elif k == 'async_fn':
            items.append(Item('async_fn', sig=L, line=i))
        elif k == 'close':
            if mod is not None and one(L).startswith('}') and not one(L).startswith(' '):
                # a column-0 close after items of a module closes the module (structs/impls are consumed above)
                items.append(Item('mod_close', line=i))
                mod = None
        elif k == 'other':
            if re.match(r'\s*(pub )?mod (error|helpers|restrictions|multi_ref) \{', one(L)):
                items.append(Item('helpers_start', line=i))
                break
        i += 1
    return items, lines


def sym_eq(a, b, allowed=None):
    """python bool or SymVal(bool)"""
    if isinstance(a, SymVal) or isinstance(b, SymVal):
        return smap(lambda x, y: x == y, a, b, allowed=allowed)
    return a == b


def cond_false(v):
    """z3 condition under which the (possibly symbolic) boolean v is False; None if v is True everywhere"""
    if isinstance(v, SymVal):
        fs = [g.z for g, x in v.alts if not x]
        if not fs:
            return None
        return z3.Or(*fs)
    return None if v else z3.BoolVal(True)
