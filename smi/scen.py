"""Scenario = parametrised document set (symbolic selectors) + exploration + solver queries + native replay."""
import os, tempfile, time
import z3
import harness as H
from interp import Panic, Unsupported, Divergence, Sink
from models import explore
from sym import Selector, SymVal
from xmltree import XDoc, build, to_xml
from schema_model import Schema, Env
from common import rmtree, save_replay


class Scenario:
    def __init__(self, name, files, start, selectors, hash_sym=False, describe=None, order=None):
        """files: {file name: Schema | E tree | XDoc | str}; start: file name (str or Selector)"""
        self.name = name
        self.selectors = list(selectors)
        self.start = start
        self.hash_sym = hash_sym
        self.describe = describe or {}
        self.order = order
        self.docs = {}
        for fn, v in files.items():
            if isinstance(v, Schema):
                v = v.tree()
            if not isinstance(v, (XDoc, str)):
                v = build(v)
            self.docs[fn] = v
        self.domain = z3.And(*[s.domain for s in self.selectors]) if self.selectors else z3.BoolVal(True)

    def entry(self, m):
        m.pc.append(self.domain)
        m.hash_order_symbolic = self.hash_sym
        dep = getattr(self, 'departure', None)
        if dep is not None:
            m.departure_budget, m.dep_selectors = dep
        start = self.start.sym() if isinstance(self.start, Selector) else self.start
        return H.generate(m, self.docs, start, order=self.order)

    def explore(self, ctx, max_paths=20000):
        return explore(lambda: H.machine(ctx), self.entry, max_paths=max_paths)

    def solve(self, m, cond=None):
        """model of (path condition of m) ∧ cond, or None"""
        s = z3.Solver()
        s.add(*m.pc)
        if cond is not None:
            s.add(cond)
        m.queries += 1
        r = s.check()
        if r == z3.unknown:
            raise Unsupported('solver unknown')
        return s.model() if r == z3.sat else None

    def params(self, model):
        return {s.name: s.value_in(model) for s in self.selectors}

    def concrete_files(self, model):
        out = {}
        for fn, d in self.docs.items():
            out[fn] = d if isinstance(d, str) else to_xml(d, model)
        return out

    def start_name(self, model):
        return self.start.value_in(model) if isinstance(self.start, Selector) else self.start

    def native(self, ctx, model):
        """run the natively built zeep on the concretised files -> (rc, text|None, log, files)"""
        files = self.concrete_files(model)
        rc, txt, log = H.native_generate(ctx, files, self.start_name(model))
        return rc, txt, log, files
