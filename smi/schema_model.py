"""Abstract schema model of the supported subset (DESIGN section 2): generates the XML trees zeep reads and,
independently of zeep, the reference expectations the oracles compare against. Attribute values may be Selectors
(finite-domain symbolic parameters)."""
import json, os
import z3
from sym import Selector, SymVal, smap
from xmltree import E, Opt, Text, build, XS, WSDL, SOAP
import native

VERIF = os.path.dirname(os.path.dirname(os.path.abspath(__file__)))
BUILTINS = json.load(open(os.path.join(VERIF, 'reference/builtins.json')))['table']
_KW = json.load(open(os.path.join(VERIF, 'reference/keywords.json')))
KEYWORDS = set(_KW['strict'] + _KW['reserved'])
NON_RAW = set(_KW['non_raw'])

ABSENT = '\x00absent'     # option value meaning "attribute not present"


class Env:
    """evaluation environment: symbolic (model=None: selectors stand for SymVals) or concrete (under a z3 model)"""

    def __init__(self, model=None, allowed=None):
        self.model = model
        self.allowed = allowed

    def v(self, x):
        if isinstance(x, Selector):
            if self.model is not None:
                return x.value_in(self.model)
            return x.sym()
        return x

    def map(self, f, *xs):
        return smap(f, *[self.v(x) for x in xs], allowed=self.allowed)


def attr(x):
    """attribute value for the XML tree: Selector with an ABSENT option becomes Opt(value, presence)"""
    if isinstance(x, Selector):
        if ABSENT in x.options:
            i = x.options.index(ABSENT)
            return Opt(x.sym(), x.var != i)
        return x.sym()
    return x


def put(attrs, key, x):
    if x is None or x == ABSENT:
        return
    attrs[key] = attr(x)


# ------------------------------------------------------------------------------------------------ model classes

class El:
    def __init__(self, name=None, type=None, min=None, max=None, ref=None, anon=None):
        self.name, self.type, self.min, self.max, self.ref, self.anon = name, type, min, max, ref, anon


class Any:
    def __init__(self, min=None, max=None):
        self.min, self.max = min, max


class Seq:
    def __init__(self, items, min=None, max=None):
        self.items, self.min, self.max = items, min, max


class Choice(Seq):
    pass


class All(Seq):
    """xs:all: every member once, in any order (generated like a sequence)"""


class Note:
    """an xs:annotation placed among the particles of a content model (declares nothing)"""

    def __init__(self, text):
        self.text = text


class Attr:
    def __init__(self, name, type='xs:string', use=None, ref=None):
        self.name, self.type, self.use, self.ref = name, type, use, ref


class CT:
    """named complexType; content: Seq | None; attrs; base: QName of the extended type (complexContent/extension)"""

    def __init__(self, name, content=None, attrs=(), base=None, ext_attrs=(), doc=None, ns=None):
        self.name, self.content, self.attrs, self.base, self.ext_attrs, self.doc = name, content, list(attrs), base, list(ext_attrs), doc
        self.ns = ns or {}


class ST:
    def __init__(self, name, base, facets=None, enums=(), doc=None, facets_as_attr=False):
        self.name, self.base, self.facets, self.enums, self.doc, self.facets_as_attr = name, base, facets or {}, list(enums), doc, facets_as_attr


class GEl:
    """global element: type=QName or anon=CT-like content"""

    def __init__(self, name, type=None, content=None, attrs=(), doc=None):
        self.name, self.type, self.content, self.attrs, self.doc = name, type, content, list(attrs), doc


class Schema:
    def __init__(self, tns, components, prefixes=None, imports=(), order=None, xs='xs', default_ns=None):
        self.tns = tns
        self.components = components
        self.prefixes = prefixes or {}       # prefix -> uri declared on xs:schema
        self.imports = list(imports)         # (namespace, schemaLocation)
        self.order = order                   # Selector over permutations of components (declaration order)
        self.xs = xs
        self.default_ns = default_ns

    # ---------------------------------------------------------- XML tree
    def tree(self):
        x = self.xs + ':'
        kids = []
        for ns, loc in self.imports:
            a = {}
            put(a, 'namespace', ns)
            put(a, 'schemaLocation', loc)
            kids.append(E(x + 'import', a))
        notes = getattr(self, 'import_notes', None)
        if notes is not None:
            # an xs:annotation before the first import and / or between the first and the second one (Selector over positions)
            x_ = self.xs + ':'
            mk = lambda: E(x_ + 'annotation', {}, [E(x_ + 'documentation', {}, [Text('about the imports')])])
            first = Opt(mk(), notes.var == notes.options.index('first'))
            between = Opt(mk(), notes.var == notes.options.index('between'))
            kids = [first] + kids[:1] + [between] + kids[1:]
        comps = [self._comp(c) for c in self.components]
        nsd = {self.xs: XS}
        nsd.update({k: attr(v) for k, v in self.prefixes.items()})
        if self.default_ns is not None:
            nsd[''] = attr(self.default_ns)
        a = {'elementFormDefault': 'qualified'}
        put(a, 'targetNamespace', self.tns)
        if self.order is not None:
            # permutation applies to the components only (imports stay first)
            n_imp = len(kids)
            from xmltree import perms
            opts = [tuple(range(n_imp)) + tuple(n_imp + i for i in p) for p in self.order.options]
            sel = Selector(self.order.name, opts)
            sel.var = self.order.var
            return E(x + 'schema', a, kids + comps, ns=nsd, order=sel)
        return E(x + 'schema', a, kids + comps, ns=nsd)

    def _doc(self, doc):
        x = self.xs + ':'
        if doc is None:
            return []
        return [E(x + 'annotation', {}, [E(x + 'documentation', {}, [Text(attr(doc) if isinstance(doc, Selector) else doc)])])]

    def _particle(self, p):
        x = self.xs + ':'
        a = {}
        if isinstance(p, El):
            if p.ref is not None:
                put(a, 'ref', p.ref)
            else:
                put(a, 'name', p.name)
                put(a, 'type', p.type)
            put(a, 'minOccurs', p.min)
            put(a, 'maxOccurs', p.max)
            kids = []
            if p.anon is not None:
                kids = [E(x + 'complexType', {}, self._ct_content(p.anon))]
            return E(x + 'element', a, kids)
        if isinstance(p, Any):
            put(a, 'minOccurs', p.min)
            put(a, 'maxOccurs', p.max)
            return E(x + 'any', a)
        if isinstance(p, Note):
            return self._doc(p.text)[0]
        put(a, 'minOccurs', p.min)
        put(a, 'maxOccurs', p.max)
        return E(x + ('choice' if isinstance(p, Choice) else 'all' if isinstance(p, All) else 'sequence'), a, [self._particle(q) for q in p.items])

    def _attr(self, at):
        x = self.xs + ':'
        a = {}
        if at.ref is not None:
            put(a, 'ref', at.ref)
        else:
            put(a, 'name', at.name)
            put(a, 'type', at.type)
        put(a, 'use', at.use)
        return E(x + 'attribute', a)

    def _ct_content(self, c):
        x = self.xs + ':'
        kids = self._doc(getattr(c, 'doc', None))
        if c.base is not None:
            ext = []
            if c.content is not None:
                ext.append(self._particle(c.content))
            ext += [self._attr(a) for a in c.ext_attrs]
            kids.append(E(x + 'complexContent', {}, [E(x + 'extension', {'base': attr(c.base)}, ext)]))
        elif c.content is not None:
            kids.append(self._particle(c.content))
        kids += [self._attr(a) for a in c.attrs]
        return kids

    def _comp(self, c):
        x = self.xs + ':'
        if isinstance(c, CT):
            a = {}
            put(a, 'name', c.name)
            return E(x + 'complexType', a, self._ct_content(c), ns={k: attr(v) for k, v in c.ns.items()})
        if isinstance(c, ST):
            a = {}
            put(a, 'name', c.name)
            ra = {}
            put(ra, 'base', c.base)
            rk = []
            for k, v in c.facets.items():
                if c.facets_as_attr:
                    put(ra, k, v)
                else:
                    fa = {}
                    put(fa, 'value', v)
                    if isinstance(v, Selector) and ABSENT in v.options:
                        rk.append(Opt(E(x + k, {'value': v.sym()}), v.var != v.options.index(ABSENT)))
                    else:
                        rk.append(E(x + k, fa))
            for e in c.enums:
                ea = {}
                put(ea, 'value', e)
                rk.append(E(x + 'enumeration', ea))
            return E(x + 'simpleType', a, self._doc(c.doc) + [E(x + 'restriction', ra, rk)])
        if isinstance(c, GEl):
            a = {}
            put(a, 'name', c.name)
            put(a, 'type', c.type)
            kids = self._doc(c.doc)          # xs:annotation comes first, before the type definition
            if c.content is not None or c.attrs:
                fake = CT(None, c.content, c.attrs)
                kids = kids + [E(x + 'complexType', {}, self._ct_content(fake))]
            return E(x + 'element', a, kids)
        raise TypeError(c)


# ------------------------------------------------------------------------------------------------ reference rules

def snake(s):
    return native.inflect('to_snake_case', s)


def pascal(s):
    return native.inflect('to_pascal_case', s)


def field_ident(xml_name):
    """expected Rust field identifier for an XML member name: snake_case, raw-escaped when it is a keyword"""
    s = snake(xml_name)
    if s in KEYWORDS:
        if s in NON_RAW:
            return ('nonraw', s)        # any non-keyword replacement is acceptable
        return 'r#' + s
    return s


def ident_ok(actual, expected):
    if isinstance(expected, tuple):
        return actual not in KEYWORDS and not actual.startswith('r#') and actual != expected[1] and actual != ''
    return actual == expected


def occurs(min_, max_, pmin=None, pmax=None, in_choice=False):
    """wrapping of an element member: 'vec' | 'opt' | 'one'"""
    def rep(x):
        return x not in (None, ABSENT, '0', '1')

    def zero(x):
        return x == '0'
    if rep(max_) or rep(pmax):
        return 'vec'
    if zero(min_) or zero(pmin) or in_choice:
        return 'opt'
    return 'one'


def wrap(kind, t):
    return {'vec': 'Vec<%s>', 'opt': 'Option<%s>', 'one': '%s'}[kind] % t


def split_qname(q):
    if ':' in q:
        p, l = q.split(':', 1)
        return p, l
    return None, q


# ------------------------------------------------------------------------------------------------ WSDL model

class Msg:
    def __init__(self, name, parts):
        self.name, self.parts = name, list(parts)        # parts: [(part name, element QName)]


class Op:
    def __init__(self, name, input, output=None, body_parts=ABSENT, out_body_parts=ABSENT, headers=(), out_headers=(), action=ABSENT, has_output=True):
        self.name, self.input, self.output = name, input, output
        self.body_parts, self.out_body_parts = body_parts, out_body_parts
        self.headers, self.out_headers = list(headers), list(out_headers)
        self.action = action
        self.has_output = has_output         # bool or z3 Bool / Selector-derived presence of <output>


class Wsdl:
    def __init__(self, tns, schema, messages, ops, service='OrdersService', binding='OrdersBinding', port_type='OrdersPort',
                 location='http://example.com/orders', prefixes=None, extra_schemas=()):
        self.tns, self.schema, self.messages, self.ops = tns, schema, list(messages), list(ops)
        self.service, self.binding, self.port_type, self.location = service, binding, port_type, location
        self.prefixes = prefixes or {}
        self.extra_schemas = list(extra_schemas)

    def tree(self):
        w = 'wsdl:'
        so = 'soap:'
        nsd = {'wsdl': WSDL, 'soap': SOAP, 'xs': XS, 'tns': attr(self.tns)}
        nsd.update({k: attr(v) for k, v in self.prefixes.items()})
        kids = [E(w + 'types', {}, [self.schema.tree()] + [x.tree() for x in self.extra_schemas])]
        for msg in self.messages:
            ps = []
            for pn, el in msg.parts:
                a = {}
                put(a, 'name', pn)
                put(a, 'element', el)
                ps.append(E(w + 'part', a))
            a = {}
            put(a, 'name', msg.name)
            kids.append(E(w + 'message', a, ps))
        pops = []
        bops = []
        for op in self.ops:
            a = {}
            put(a, 'name', op.name)
            io = [E(w + 'input', {'message': attr(op.input)})]
            if op.output is not None:
                o = E(w + 'output', {'message': attr(op.output)})
                io.append(o if op.has_output is True else Opt(o, op.has_output))
            pops.append(E(w + 'operation', a, io))

            def env(parts, headers, message=None):
                ks = []
                for h in headers:
                    ha = {'use': 'literal'}
                    put(ha, 'message', message if message is not None else op.input)
                    put(ha, 'part', h)
                    ks.append(E(so + 'header', ha))
                ba = {'use': 'literal'}
                put(ba, 'parts', parts)
                ks.append(E(so + 'body', ba))
                return ks
            bk = []
            sa = {}
            put(sa, 'soapAction', op.action)
            bk.append(E(so + 'operation', sa))
            bk.append(E(w + 'input', {}, env(op.body_parts, op.headers)))
            if op.output is not None:
                o = E(w + 'output', {}, env(op.out_body_parts, op.out_headers, op.output))
                bk.append(o if op.has_output is True else Opt(o, op.has_output))
            bops.append(E(w + 'operation', dict(a), bk))
        kids.append(E(w + 'portType', {'name': attr(self.port_type)}, pops))
        kids.append(E(w + 'binding', {'name': attr(self.binding), 'type': smap(lambda p: 'tns:' + p, attr(self.port_type)) if not isinstance(self.port_type, str) else 'tns:' + self.port_type},
                      [E(so + 'binding', {'style': 'document', 'transport': 'http://schemas.xmlsoap.org/soap/http'})] + bops))
        bname = 'tns:' + self.binding if isinstance(self.binding, str) else smap(lambda p: 'tns:' + p, attr(self.binding))
        kids.append(E(w + 'service', {'name': attr(self.service)}, [
            E(w + 'port', {'name': 'Port', 'binding': bname}, [E(so + 'address', {'location': attr(self.location)})])]))
        a = {'name': 'Defs'}
        put(a, 'targetNamespace', self.tns)
        return E(w + 'definitions', a, kids, ns=nsd)
