"""Symbolic values for the MIR interpreter.

SymVal  : finite guarded union {guard_i -> concrete python value}; guards are z3 formulas over *selector*
          variables (z3 Int consts ranging over a finite domain declared by the scenario). Guards of one
          SymVal are mutually exclusive and exhaustive under the scenario's domain constraint.
G       : a guard = z3 formula + (when it is a plain conjunction of selector==index atoms) a python cube
          {selector name: index}. The cube is only a *simplifier* (cheap detection of contradictory
          combinations); every verdict is taken by the z3 solver on the z3 formula.
"""
import itertools
import z3


class G:
    __slots__ = ('z', 'cube')

    def __init__(self, z, cube=None):
        self.z = z
        self.cube = cube

    def __repr__(self):
        return 'G(%s)' % (self.cube if self.cube is not None else self.z)


TRUE = G(z3.BoolVal(True), {})
FALSE = None  # contradictory guards are represented by None


def g_and(a, b):
    if a is None or b is None:
        return None
    if a.cube is not None and b.cube is not None:
        if not a.cube:
            return b
        if not b.cube:
            return a
        c = dict(a.cube)
        for k, v in b.cube.items():
            if k in c:
                w = c[k] & v
                if not w:
                    return None
                c[k] = w
            else:
                c[k] = v
        return G(z3.And(a.z, b.z), c)
    return G(z3.And(a.z, b.z), None)


def g_or(gs):
    gs = [g for g in gs if g is not None]
    if not gs:
        return None
    if len(gs) == 1:
        return gs[0]
    for g in gs:
        if g.cube is not None and not g.cube:
            return TRUE
    cube = None
    if all(g.cube is not None and len(g.cube) == 1 for g in gs):
        names = {next(iter(g.cube)) for g in gs}
        if len(names) == 1:
            n = names.pop()
            u = frozenset()
            for g in gs:
                u = u | g.cube[n]
            cube = {n: u}
    return G(z3.Or(*[g.z for g in gs]), cube)


class SymVal:
    """alts: list of (G, value); values hashable python objects (str, int, bool, tuple, None)"""
    __slots__ = ('alts',)

    def __init__(self, alts):
        self.alts = alts

    def __repr__(self):
        return 'SymVal(%s)' % ', '.join(repr(v) for _, v in self.alts[:6]) + ('…' if len(self.alts) > 6 else '')

    def values(self):
        return [v for _, v in self.alts]


class Selector:
    """a finite-domain symbolic parameter of a scenario"""

    def __init__(self, name, options):
        self.name = name
        self.options = list(options)
        self.var = z3.Int(name)
        self.domain = z3.And(self.var >= 0, self.var < len(self.options))

    def sym(self):
        if len(self.options) == 1:
            return self.options[0]
        return SymVal([(G(self.var == i, {self.name: frozenset([i])}), o) for i, o in enumerate(self.options)])

    def is_(self, i):
        return self.var == i

    def value_in(self, model):
        v = model.eval(self.var, model_completion=True).as_long()
        return self.options[v]


def lift(v, allowed=None):
    """-> list of (G, concrete). allowed: {selector name: set(indices)} from the path condition (prunes alternatives)"""
    if isinstance(v, SymVal):
        if not allowed:
            return v.alts
        out = []
        for g, x in v.alts:
            if g.cube is not None and any(k in allowed and not (i & allowed[k]) for k, i in g.cube.items()):
                continue
            out.append((g, x))
        return out
    return [(TRUE, v)]


def smap(f, *vals, allowed=None):
    """apply the concrete function f over all feasible combinations of alternatives; merges equal results"""
    if not any(isinstance(v, SymVal) for v in vals):
        return f(*vals)
    out = {}
    order = []
    for combo in itertools.product(*[lift(v, allowed) for v in vals]):
        g = TRUE
        for c in combo:
            g = g_and(g, c[0])
            if g is None:
                break
        if g is None:
            continue
        r = f(*[c[1] for c in combo])
        if r not in out:
            out[r] = []
            order.append(r)
        out[r].append(g)
    if not order:
        raise Infeasible()
    if len(order) == 1:
        return order[0]
    return SymVal([(g_or(out[r]), r) for r in order])


def sym_true_cond(v):
    """SymVal of bools -> (z3 condition, single-var narrowing info or None)"""
    ts = [g for g, x in v.alts if x]
    fs = [g for g, x in v.alts if not x]
    cond = z3.Or(*[g.z for g in ts]) if ts else z3.BoolVal(False)
    narrow = None
    cubes = [g.cube for g, _ in v.alts]
    if all(c is not None and len(c) == 1 for c in cubes):
        names = {next(iter(c)) for c in cubes}
        if len(names) == 1:
            n = names.pop()
            tset = set()
            fset = set()
            for g in ts:
                tset |= g.cube[n]
            for g in fs:
                fset |= g.cube[n]
            narrow = (n, tset, fset)
    return cond, narrow


class Infeasible(Exception):
    pass
