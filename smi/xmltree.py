"""roxmltree stand-in: an XML tree whose attribute values / presence / child order / child presence may be symbolic.

Concrete documents (repository fixtures) are parsed with expat into the same structure. Scenario documents are
built with E(...) and can be serialised back to real XML text under a z3 model (for native replay)."""
import itertools
import xml.parsers.expat
from xml.sax.saxutils import escape, quoteattr
import z3
from sym import SymVal, Selector

XS = 'http://www.w3.org/2001/XMLSchema'
WSDL = 'http://schemas.xmlsoap.org/wsdl/'
SOAP = 'http://schemas.xmlsoap.org/wsdl/soap/'


class XDoc:
    def __init__(self):
        self.nodes = []
        self.malformed = False   # Document::parse returns Err when True (may be a z3 Bool)


class XNode:
    __slots__ = ('doc', 'idx')

    def __init__(self, doc, idx):
        self.doc = doc
        self.idx = idx

    @property
    def d(self):
        return self.doc.nodes[self.idx]

    def __eq__(self, o):
        return isinstance(o, XNode) and o.doc is self.doc and o.idx == self.idx

    def __hash__(self):
        return hash(self.idx)

    def __repr__(self):
        return 'Node#%d<%s>' % (self.idx, self.d.get('tag'))


def parse_xml(text):
    """concrete XML text -> XDoc (raises expat error on malformed input)"""
    doc = XDoc()
    doc.nodes.append(dict(kind='root', parent=None, children=[], ns=[], tag='', attrs=[]))
    stack = [0]
    p = xml.parsers.expat.ParserCreate()
    p.ordered_attributes = True
    p.buffer_text = True

    def start(name, attrs):
        par = stack[-1]
        own = []
        at = []
        for i in range(0, len(attrs), 2):
            k, v = attrs[i], attrs[i + 1]
            if k == 'xmlns':
                own.append((None, v))
            elif k.startswith('xmlns:'):
                own.append((k[6:], v))
            else:
                at.append((k, v, True))   # prefixed attributes keep their qname: roxmltree's attribute("x") only matches un-namespaced ones
        pns = doc.nodes[par]['ns'] if doc.nodes[par]['kind'] == 'element' else []
        ns = (list(own) + [x for x in pns if x[0] not in [o[0] for o in own]]) if own else list(pns)
        idx = len(doc.nodes)
        doc.nodes.append(dict(kind='element', tag=name.split(':')[-1], qname=name, attrs=at, ns=ns, own_ns=own, parent=par, children=[]))
        doc.nodes[par]['children'].append(idx)
        stack.append(idx)

    def end(name):
        stack.pop()

    def chars(data):
        par = stack[-1]
        idx = len(doc.nodes)
        doc.nodes.append(dict(kind='text', text=data, parent=par, children=[], tag='', attrs=[]))
        doc.nodes[par]['children'].append(idx)

    def comment(data):
        par = stack[-1]
        idx = len(doc.nodes)
        doc.nodes.append(dict(kind='comment', text=data, parent=par, children=[], tag='', attrs=[]))
        doc.nodes[par]['children'].append(idx)

    p.StartElementHandler = start
    p.EndElementHandler = end
    p.CharacterDataHandler = chars
    p.CommentHandler = comment
    p.Parse(text, True)
    return doc


# ----------------------------------------------------------------------------------------------- scenario DSL

class Opt:
    """an attribute / child that is present iff cond (a z3 Bool or python bool)"""

    def __init__(self, value, cond):
        self.value = value
        self.cond = cond


class E:
    """element builder. name: 'prefix:local' or 'local' (str, or Selector-backed SymVal for the *local* part);
    attrs: dict name -> str | SymVal | Opt; children: list of E | Opt(E, cond) | Text; ns: dict prefix->uri declared
    on this element; order: optional Selector over permutations of the children (list of index tuples)"""

    def __init__(self, name, attrs=None, children=None, ns=None, order=None):
        self.name = name
        self.attrs = attrs or {}
        self.children = children or []
        self.ns = ns or {}
        self.order = order


class Text:
    def __init__(self, text):
        self.text = text


def build(root):
    """E tree -> XDoc"""
    doc = XDoc()
    doc.nodes.append(dict(kind='root', parent=None, children=[], ns=[], tag='', attrs=[]))

    def add(e, par, pns):
        present = True
        if isinstance(e, Opt):
            present = e.cond
            e = e.value
        idx = len(doc.nodes)
        if isinstance(e, Text):
            doc.nodes.append(dict(kind='text', text=e.text, parent=par, children=[], tag='', attrs=[], present=present))
            doc.nodes[par]['children'].append(idx)
            return
        own = [((p or None), u) for p, u in e.ns.items()]
        ns = (list(own) + [x for x in pns if x[0] not in [o[0] for o in own]]) if own else list(pns)
        name = e.name
        if isinstance(name, str):
            prefix, _, local = name.rpartition(':')
        else:
            prefix, local = 'xs', name      # symbolic tag: local part symbolic, xs prefix
        attrs = []
        for k, v in e.attrs.items():
            if isinstance(v, Opt):
                attrs.append((k, v.value, v.cond))
            else:
                attrs.append((k, v, True))
        node = dict(kind='element', tag=local, prefix=prefix, attrs=attrs, ns=ns, own_ns=own, parent=par, children=[], present=present)
        if e.order is not None:
            node['order'] = e.order
        doc.nodes.append(node)
        doc.nodes[par]['children'].append(idx)
        for c in e.children:
            add(c, idx, ns)

    add(root, 0, [])
    return doc


def concretize(v, model, selectors):
    """value of a (possibly symbolic) python/SymVal/z3 value under a z3 model"""
    if isinstance(v, SymVal):
        for g, x in v.alts:
            if z3.is_true(model.eval(g.z, model_completion=True)):
                return x
        raise ValueError('no alternative selected')
    if isinstance(v, tuple) and len(v) == 2 and v[0] == 'present-unless':
        return not z3.is_true(model.eval(v[1], model_completion=True))
    if isinstance(v, z3.ExprRef):
        r = model.eval(v, model_completion=True)
        if z3.is_bool(r):
            return z3.is_true(r)
        return r.as_long()
    return v


def to_xml(doc, model=None, selectors=None):
    """serialise an XDoc to XML text under a z3 model (concrete docs: model may be None)"""
    out = []

    def val(v):
        return concretize(v, model, selectors) if model is not None else v

    def ser(idx, depth):
        n = doc.nodes[idx]
        if not val(n.get('present', True)):
            return
        if n['kind'] == 'text':
            out.append(escape(val(n['text'])).replace('\r', '&#13;'))
            return
        if n['kind'] == 'comment':
            out.append('<!--%s-->' % n['text'])
            return
        tag = val(n['tag'])
        q = n.get('qname') or ((n.get('prefix') + ':' if n.get('prefix') else '') + tag)
        parts = ['<' + q]
        for p, u in n.get('own_ns', []):
            parts.append(' xmlns%s=%s' % (':' + p if p else '', quoteattr(val(u))))
        for k, v, pres in n['attrs']:
            if val(pres):
                parts.append(' %s=%s' % (k, quoteattr(val(v)).replace('\n', '&#10;').replace('\r', '&#13;').replace('\t', '&#9;')))
        kids = list(n['children'])
        if 'order' in n and model is not None:
            perm = n['order'].value_in(model)
            kids = [kids[i] for i in perm]
        if not kids:
            out.append(''.join(parts) + '/>')
            return
        out.append(''.join(parts) + '>')
        for c in kids:
            ser(c, depth + 1)
        out.append('</%s>' % q)

    for c in doc.nodes[0]['children']:
        ser(c, 0)
    return '<?xml version="1.0" encoding="UTF-8"?>\n' + ''.join(out) + '\n'


def perms(n):
    return list(itertools.permutations(range(n)))
