#!/bin/bash
# confirm a seeded mutation in its scratch worktree: applies, builds, 32 tests pass, demo fails with / passes without
# usage: tools_confirm_seed.sh <worktree> <mutation dir name>
wt=$1; m=$2; d=$wt/seeded/$m
cd $wt || exit 9
git checkout -q -- zeep-lib zeep 2>/dev/null
export CARGO_TARGET_DIR=$wt/target CARGO_NET_OFFLINE=true
git apply --check $d/patch.diff || { echo "APPLY-FAIL"; exit 1; }
git apply $d/patch.diff
t=$(cargo test --workspace --offline 2>&1 | grep -E "^test result: .* [0-9]+ passed" | sort -u | tr '\n' ' ')
echo "mutated tests: $t"
( cd $d && timeout 900 bash ./demo.sh $wt >/tmp/demo_mut.log 2>&1 ); rc_mut=$?
git checkout -q -- zeep-lib zeep
git clean -fdq zeep-lib zeep 2>/dev/null
( cd $d && timeout 900 bash ./demo.sh $wt >/tmp/demo_clean.log 2>&1 ); rc_clean=$?
echo "demo rc mutated=$rc_mut clean=$rc_clean"
