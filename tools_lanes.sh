#!/bin/bash
# parallel lanes for testing patches without touching /repo: each lane = a copy of /verif + a worktree of /repo under /tmp/lane_<k>
# usage: tools_lanes.sh setup <n> | run <k> <tasks file> | teardown
# tasks file lines: <patch dir> <benign|seed> <check> [<check> ...]
cmd=$1; shift
case $cmd in
setup)
  n=$1
  for k in $(seq 1 $n); do
    L=/tmp/lane_$k; rm -rf $L/verif; mkdir -p $L
    [ -d $L/repo ] || git -C /repo worktree add --detach $L/repo HEAD >/dev/null 2>&1
    git -C $L/repo checkout -q --detach $(git -C /repo rev-parse HEAD); git -C $L/repo checkout -q -- .
    rsync -a --exclude replays --exclude 'build/kani*' /verif/ $L/verif/
  done;;
run)
  k=$1; tasks=$2; L=/tmp/lane_$k
  export ZEEP_REPO=$L/repo
  rsync -a --exclude build --exclude replays --exclude evidence /verif/lib /verif/smi /verif/kani /verif/kani_gen /verif/check /verif/known_findings.json $L/verif/ 
  while read -r d kind checks; do
    [ -z "$d" ] && continue
    git -C $L/repo checkout -q -- . ; git -C $L/repo clean -fdq zeep-lib zeep
    if [ -s $d/patch.diff ]; then git -C $L/repo apply $d/patch.diff || { echo "APPLY-FAIL $d"; continue; }; fi   # an empty patch = the unchanged tree
    for p in $checks; do
      out=$(cd $L/verif && timeout ${LANE_TIMEOUT:-3000} ./check $p 2>&1); rc=$?
      echo "[$(basename $d)] $kind $p rc=$rc viol=$(echo "$out" | grep -c '^VIOLATION')"
      echo "$out" | grep -E "^INCONCLUSIVE|^  key=" | cut -c1-300 | head -3
    done
    git -C $L/repo checkout -q -- . ; git -C $L/repo clean -fdq zeep-lib zeep
  done < $tasks;;
teardown)
  for L in /tmp/lane_*; do git -C /repo worktree remove --force $L/repo 2>/dev/null; rm -rf $L; done; git -C /repo worktree prune;;
esac
