#!/bin/bash
# apply a patch to /repo, run the interpreter validation + a few explorations, undo
cd /repo && git apply $1/patch.diff || { echo APPLY-FAIL; exit 1; }
python3-vt /tmp/val_all.py 2>&1 | grep -v "^WARNING" | tail -12
git -C /repo checkout -q -- . ; git -C /repo clean -fdq zeep-lib zeep
