#!/bin/bash
# apply a behaviour-preserving refactoring to /repo, run the given checks, undo; any VIOLATION or non-zero exit is a false alarm / gap
d=$1; shift
cd /repo || exit 9
git apply --check $d/patch.diff || { echo "APPLY-FAIL $d"; exit 1; }
git apply $d/patch.diff
for p in "$@"; do
  out=$(cd /verif && timeout 3000 ./check $p 2>&1); rc=$?
  echo "[$(basename $d)] $p rc=$rc $(echo "$out" | grep -c '^VIOLATION') viol"
  [ $rc -ne 0 ] && echo "$out" | grep -E "^VIOLATION|^INCONCLUSIVE|^  key=" | cut -c1-330 | head -4
done
git -C /repo checkout -q -- . ; git -C /repo clean -fdq zeep-lib zeep
