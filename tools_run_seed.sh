#!/bin/bash
# apply a seeded mutation to /repo, run the given checks, undo. usage: tools_run_seed.sh <seed dir> <prop> [<prop>...]
d=$1; shift
cd /repo || exit 9
git apply --check $d/patch.diff || { echo "APPLY-FAIL $d"; exit 1; }
git apply $d/patch.diff
for p in "$@"; do
  out=$(cd /verif && timeout 3000 ./check $p 2>&1); rc=$?
  echo "[$d] check $p rc=$rc"
  echo "$out" | grep -E "^VIOLATION|^INCONCLUSIVE|^KNOWN" | cut -c1-220 | head -6
  echo "$out" | grep -E "^  key=" | cut -c1-260 | head -4
done
git -C /repo checkout -q -- . ; git -C /repo clean -fdq zeep-lib zeep
